import jax; jax.config.update("jax_enable_x64", True)
import numpy as np
from tab import Tab, rand
from ref import *

def gs_sweep(P,R,g,v,order,shape,S):
    D,B,bs = shape
    slots = list(order)+[None]*(D*B*bs-S)
    new = np.empty(S)
    for d in range(D):
        carry = v.copy()
        for b in range(B):
            batch = slots[(d*B+b)*bs:(d*B+b+1)*bs]
            real = [s for s in batch if s is not None]
            vals = {s:(R[s]+g*P[s]@carry).max() for s in real}
            for s in real: new[s]=vals[s]; carry[s]=vals[s]
    return new
