import sys, jax; jax.config.update("jax_enable_x64", True)
import numpy as np
from tab import Tab
from ref import tables
from mdpax.solvers import PeriodicValueIteration, ValueIteration
def avg_eval(P,R,pi):
    S=len(pi); Pp=P[np.arange(S),pi]; Rp=R[np.arange(S),pi]
    A=np.zeros((S+1,S+1)); A[:S,:S]=np.eye(S)-Pp; A[:S,S]=1; A[S,0]=1
    x=np.linalg.solve(A,np.append(Rp,0)); return x[S],x[:S]
def avg_pi(P,R):
    S=P.shape[0]; pi=np.zeros(S,int)
    for _ in range(500):
        g,h=avg_eval(P,R,pi); q=R+P@h; new=q.argmax(1); keep=q[np.arange(S),pi]>=q.max(1)-1e-11; new=np.where(keep,pi,new)
        if (new==pi).all(): return g,h,pi
        pi=new
    raise RuntimeError
worst=0; n=0; nc=0; plain_nc=0
for seed in range(int(sys.argv[1]),160,int(sys.argv[2])):
    r=np.random.default_rng(seed); p=int(r.choice([2,3,4])); per_class=int(r.integers(1,5)); S=p*per_class; A=int(r.integers(1,4)); E=int(r.integers(2,4))
    cls=np.arange(S)%p
    nxt=np.zeros((S,A,E),int)
    for s in range(S):
        tgt=[t for t in range(S) if cls[t]==(cls[s]+1)%p]
        nxt[s]=r.choice(tgt,size=(A,E)); nxt[s,:,0]=tgt[0]     # hub of next class
    prob=r.dirichlet(np.ones(E),size=(S,A)); prob[:,:,0]=0.2; rest=prob[:,:,1:]; prob[:,:,1:]=rest/rest.sum(-1,keepdims=True)*0.8
    rew=r.normal(size=(S,A,E))*3+1; P,R=tables(nxt,rew,prob); gs,_,_=avg_pi(P,R); eps=float(10**r.uniform(-5,-1))
    mult=int(r.choice([1,2]))
    s=PeriodicValueIteration(Tab(nxt,rew,prob),gamma=1.0,period=p*mult,epsilon=eps,verbose=0,clear_value_history_on_convergence=False)
    res=s.solve(5000); n+=1
    if res.info.iteration>=5000: nc+=1; continue
    H=np.asarray(res.info.value_history); hi=res.info.history_index; P_=p*mult
    d=(H[hi]-H[(hi+1)%(P_+1)])/P_
    worst=max(worst,np.abs(d-gs).max()/(eps/P_))
    if np.abs(d-gs).max()>eps/P_+1e-9: print("EXCEED",seed,p,mult,eps,np.abs(d-gs).max()/(eps/P_))
    v=ValueIteration(Tab(nxt,rew,prob),gamma=1.0,epsilon=eps,verbose=0); rv=v.solve(600)
    if rv.info.iteration>=600: plain_nc+=1
print("shard",sys.argv[1],"n",n,"notconv",nc,"plainVI notconv",plain_nc,"worst ratio",round(worst,3))
