import jax; jax.config.update("jax_enable_x64", True)
import numpy as np
from tab import Tab, rand
from ref import *
from mdpax.solvers import SemiAsyncValueIteration
def gs_sweep(P,R,g,v,order,shape,S):
    D,B,bs = shape
    slots = list(order)+[None]*(D*B*bs-S)
    new = np.empty(S)
    for d in range(D):
        carry = v.copy()
        for b in range(B):
            batch = slots[(d*B+b)*bs:(d*B+b+1)*bs]
            real = [s for s in batch if s is not None]
            vals = {s:(R[s]+g*P[s]@carry).max() for s in real}
            for s in real: new[s]=vals[s]; carry[s]=vals[s]
    return new
import sys
for seed in range(4):
  for shuffle in (False, True):
    r=np.random.default_rng(seed); S=int(r.integers(5,40)); A=3; E=3; mb=int(r.integers(1,9))
    nxt,rew,prob=rand(S,A,E,seed); P,R=tables(nxt,rew,prob); g=0.9
    s=SemiAsyncValueIteration(Tab(nxt,rew,prob), gamma=g, epsilon=1e-12, verbose=0, max_batch_size=mb, shuffle_states=shuffle, random_seed=seed, convergence_test="max_diff")
    perms=[]; orig=s._jitted_shuffle_states
    def wrap(k, orig=orig):
        out=orig(k); perms.append(np.asarray(out[0])); return out
    s._jitted_shuffle_states=wrap
    v=np.zeros(S); ok=True
    for it in range(5):
        s.solve(1)
        order = perms[-1] if shuffle else np.arange(S)
        v = gs_sweep(P,R,g,v,order,s.batch_processor.batch_shape,S)
        ok &= np.allclose(np.asarray(s.values), v, rtol=1e-12, atol=1e-12)
    print(seed, shuffle, S, mb, s.batch_processor.batch_shape, s.n_pad, "match", ok, "distinct perms", len({tuple(p) for p in perms}))
