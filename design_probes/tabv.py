import numpy as np, itertools, jax, jax.numpy as jnp
from mdpax.core.problem import Problem
class TabV(Problem):
    """Tabular MDP presented through vector-valued states/actions/events."""
    def __init__(self, nxt, rew, prob, sbox, abox, ebox, origin=0, prob1=False, init=None, ipol=None):
        self._nxt=jnp.array(nxt,dtype=jnp.int32); self._rew=jnp.array(rew); self._prob=jnp.array(prob)
        self.sbox,self.abox,self.ebox=sbox,abox,ebox; self.origin=origin; self.prob1=prob1
        self._init=None if init is None else jnp.array(init); self._ipol=None if ipol is None else jnp.array(ipol)
        super().__init__()
    name="tabv"
    def _space(self, box, off): return jnp.array(list(itertools.product(*[range(off,off+b) for b in box])),dtype=jnp.int32)
    def _construct_state_space(self): return self._space(self.sbox,self.origin)
    def _construct_action_space(self): return self._space(self.abox,0)
    def _construct_random_event_space(self): return self._space(self.ebox,0)
    def _idx(self, v, box, off): return jnp.ravel_multi_index(tuple(jnp.asarray(v)-off), tuple(box), mode="clip")
    def state_to_index(self, s): return self._idx(s,self.sbox,self.origin)
    def random_event_probability(self,s,a,e):
        p=self._prob[self._idx(s,self.sbox,self.origin), self._idx(a,self.abox,0), self._idx(e,self.ebox,0)]
        return p.reshape(1) if self.prob1 else p
    def transition(self,s,a,e):
        i,j,k=self._idx(s,self.sbox,self.origin), self._idx(a,self.abox,0), self._idx(e,self.ebox,0)
        return self.state_space[self._nxt[i,j,k]], self._rew[i,j,k]
    def initial_value(self,s): return 0.0 if self._init is None else self._init[self.state_to_index(s)]
    def initial_policy(self,s):
        if self._ipol is None: raise NotImplementedError
        return self.action_space[self._ipol[self.state_to_index(s)]]
