import jax; jax.config.update("jax_enable_x64", True)
import numpy as np
from tabv import TabV
from tab import rand
from ref import *
from mdpax.solvers import ValueIteration, PolicyIteration, SemiAsyncValueIteration, RelativeValueIteration, PeriodicValueIteration
bad=0
for seed in range(8):
    r=np.random.default_rng(seed)
    sbox=tuple(int(x) for x in r.integers(1,4,size=r.integers(1,4))); abox=tuple(int(x) for x in r.integers(1,3,size=r.integers(1,3))); ebox=tuple(int(x) for x in r.integers(1,3,size=r.integers(1,4)))
    S,A,E=int(np.prod(sbox)),int(np.prod(abox)),int(np.prod(ebox)); origin=int(r.choice([0,1,2])); prob1=bool(r.integers(0,2))
    nxt,rew,prob=rand(S,A,E,seed); P,R=tables(nxt,rew,prob); g=0.9; eps=1e-4; vs,_=vstar(P,R,g)
    ipol=r.integers(0,A,size=S) if seed%2 else None
    mk=lambda: TabV(nxt,rew,prob,sbox,abox,ebox,origin,prob1,init=r.normal(size=S) if seed%3==0 else None, ipol=ipol)
    for cls,kw in ((ValueIteration,dict(convergence_test="max_diff")),(PolicyIteration,dict(convergence_test="max_diff",max_eval_iter=100000)),(SemiAsyncValueIteration,dict(convergence_test="max_diff",shuffle_states=True)),(PeriodicValueIteration,dict(period=2))):
        try:
            s=cls(mk(),gamma=g,epsilon=eps,verbose=0,max_batch_size=int(r.choice([1,2,1024])),**kw)
            if cls is PolicyIteration and ipol is not None:
                ok0=np.array_equal(np.asarray(s.policy), np.asarray(s.problem.action_space)[ipol])
            else: ok0=True
            res=s.solve(5000)
            aspace=np.asarray(s.problem.action_space); pol=np.asarray(res.policy)
            pidx=np.array([int(np.where((aspace==row).all(1))[0][0]) for row in pol])
            gap=np.max(vs-evalpi(P,R,pidx,g)); verr=np.abs(np.asarray(res.values).reshape(-1)-vs).max()
            lim = 2*eps/g if cls is PolicyIteration else (2*g*eps/(1-g) if cls is SemiAsyncValueIteration else 2*eps)
            ok = gap<=lim+1e-9 and ok0 and (cls is PeriodicValueIteration or verr<=eps/g+1e-9) and pol.shape==(S,len(abox))
            if not ok: bad+=1; print("BAD",seed,cls.__name__,sbox,abox,ebox,origin,prob1,gap,verr,ok0,pol.shape)
        except Exception as e:
            bad+=1; print("EXC",seed,cls.__name__,sbox,abox,ebox,origin,prob1,type(e).__name__,str(e)[:150])
    print(seed,"boxes",sbox,abox,ebox,"origin",origin,"prob1",prob1,"ipol",ipol is not None)
print("bad",bad)
