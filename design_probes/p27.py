import sys, hashlib, numpy as np, json
mode=sys.argv[1]; act=sys.argv[2]; D=sys.argv[3]; solver=sys.argv[4]
import jax
if mode=="x64first": jax.config.update("jax_enable_x64", True)
from mdpax.problems import DeMoorSingleProductPerishable, MirjaliliPlateletPerishable
from mdpax.solvers import ValueIteration, RelativeValueIteration, PolicyIteration, PeriodicValueIteration, SemiAsyncValueIteration
C={"vi":(ValueIteration,dict(gamma=0.9,epsilon=1e-3)),"rvi":(RelativeValueIteration,dict(epsilon=1e-3)),"pi":(PolicyIteration,dict(gamma=0.9,epsilon=1e-3,max_eval_iter=20)),
   "per":(PeriodicValueIteration,dict(gamma=0.9,epsilon=1e-3,period=3,clear_value_history_on_convergence=False)),"sa":(SemiAsyncValueIteration,dict(gamma=0.9,epsilon=1e-3,max_batch_size=5))}
cls,kw=C[solver]
def h(x): 
    a=np.asarray(x); return str(a.dtype)+":"+hashlib.sha256(np.ascontiguousarray(a).tobytes()).hexdigest()[:12]
def out(s):
    st=s.solver_state; d=dict(it=int(s.iteration),v=h(st.values),p=h(st.policy))
    for k in ("gain","value_history","history_index"):
        if hasattr(st.info,k): d[k]=h(getattr(st.info,k))
    print("RESULT",json.dumps(d))
P=lambda: DeMoorSingleProductPerishable(max_order_quantity=3,max_demand=8)
if act=="ref":
    s=cls(P(),verbose=0,**kw); s.solve(500); out(s)
elif act=="leg1":
    s=cls(P(),verbose=0,checkpoint_dir=D,checkpoint_frequency=3,max_checkpoints=2,**kw); s.solve(int(sys.argv[5])); s.checkpoint_manager.wait_until_finished()
else:
    s=cls.restore(D); s.solve(500-s.iteration); s.checkpoint_manager.wait_until_finished(); out(s)
