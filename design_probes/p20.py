import sys, jax; jax.config.update("jax_enable_x64", True)
import numpy as np
from tab import Tab
from ref import *
from mdpax.solvers import ValueIteration, PolicyIteration, SemiAsyncValueIteration
from loguru import logger
shard=int(sys.argv[1]); nsh=int(sys.argv[2])
def gen(r):
    S=int(r.integers(2,25)); A=int(r.integers(1,5)); E=int(r.integers(1,5))
    kind=r.integers(0,4)
    nxt=r.integers(0,S,size=(S,A,E)); 
    if kind==1: nxt[:,:,:]=nxt[:,:,:1]           # all events same successor
    if kind==2: nxt[0,:,:]=0                      # absorbing
    scale=10.0**r.integers(-3,5)
    rew=r.normal(size=(S,A,E))*scale
    if kind==3 and A>1: rew[:,1]=rew[:,0]; nxt[:,1]=nxt[:,0]   # duplicate action
    prob=r.dirichlet(np.ones(E)*r.choice([0.2,1,5]), size=(S,A))
    if A>1 and r.random()<0.3: prob[:,1]=prob[:,0]
    return nxt,rew,prob,scale
worst={}
n=0
for seed in range(shard, 400, nsh):
    r=np.random.default_rng(seed); nxt,rew,prob,scale=gen(r); P,R=tables(nxt,rew,prob)
    g=float(r.choice([0.05,0.3,0.6,0.9,0.97,0.995])); eps=float(10**r.uniform(-8,3))*scale
    vs,_=vstar(P,R,g); S=len(vs)
    init = None if r.random()<0.5 else r.normal(size=S)*scale*10
    mb=int(r.choice([1,2,3,S,S+1,1024]))
    for cls,test in ((ValueIteration,"span"),(ValueIteration,"max_diff"),(PolicyIteration,"span"),(PolicyIteration,"max_diff"),(SemiAsyncValueIteration,"max_diff")):
        kw={}
        if cls is PolicyIteration: kw=dict(max_eval_iter=200000)
        if cls is SemiAsyncValueIteration: kw=dict(shuffle_states=bool(r.random()<0.5), random_seed=int(seed))
        try:
          s=cls(Tab(nxt,rew,prob,init=init), gamma=g, epsilon=eps, verbose=0, convergence_test=test, max_batch_size=mb, **kw)
          res=s.solve(200000 if cls is not PolicyIteration else 1000)
        except (ValueError,OverflowError) as e:
          fmt=globals().get('fmt',0)+1; globals()['fmt']=fmt; continue
        pi=np.asarray(res.policy)[:,0].astype(int); vp=evalpi(P,R,pi,g); gap=float(np.max(vs-vp)); v=np.asarray(res.values).reshape(-1)
        if cls is ValueIteration: b=eps*(2 if test=="max_diff" else 1); vb=eps; vref=vs
        elif cls is PolicyIteration: b=eps/g*(2 if test=="max_diff" else 1); vb=eps/g; vref=vp
        else: b=2*g*eps/(1-g); vb=eps; vref=vs
        slack=1e-9*(1+np.abs(vs).max()+scale)
        key=(cls.__name__,test)
        ratio=(gap-slack)/b
        vr=(np.abs(v-vref).max()-slack)/vb if test=="max_diff" else 0
        w=worst.get(key,(0,0)); worst[key]=(max(w[0],ratio),max(w[1],vr))
        if ratio>1 or vr>1: print("EXCEED",seed,key,g,eps,scale,"gap",gap,"bound",b,"vr",vr,"iters",res.info.iteration)
        n+=1
print("shard",shard,"cases",n,"fmtfail",globals().get("fmt",0),{k:(round(a,3),round(b,3)) for k,(a,b) in worst.items()})
