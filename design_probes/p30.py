import sys, os, shutil, jax
jax.config.update("jax_enable_x64", True)
import numpy as np
from mdpax.problems import DeMoorSingleProductPerishable
from mdpax.solvers import ValueIteration, PolicyIteration, RelativeValueIteration
P=lambda: DeMoorSingleProductPerishable(max_order_quantity=3, max_demand=8)
r=np.random.default_rng(0); bad=0
for case in range(14):
    f=int(r.choice([1,2,3,5,7])); m=int(r.choice([1,2,3,5])); asyn=bool(r.integers(0,2)); calls=[int(x) for x in r.integers(1,12,size=r.integers(1,4))]
    eps=float(r.choice([1e-9, 0.5]))   # 0.5 -> converges early (~ it 20?) 
    d=f"/tmp/scratch/ck12"; shutil.rmtree(d,ignore_errors=True)
    s=ValueIteration(P(),gamma=0.9,epsilon=eps,verbose=0,checkpoint_dir=d,checkpoint_frequency=f,max_checkpoints=m,enable_async_checkpointing=asyn)
    elig=[]; it=0
    for k in calls:
        before=s.iteration; s.solve(k); after=s.iteration
        for j in range(before+1,after+1):
            if j%f==0 and j not in elig: elig.append(j)
        if after not in elig: elig.append(after)
    s.checkpoint_manager.wait_until_finished()
    got=sorted(int(x) for x in os.listdir(d) if x.isdigit()); exp=sorted(elig)[-m:]
    ok = got==exp
    bad+= (not ok)
    print(case,"f",f,"m",m,"async",asyn,"calls",calls,"eps",eps,"iters",s.iteration,"got",got,"exp",exp,"OK" if ok else "MISMATCH", "cfg" , os.path.exists(d+"/config.yaml"))
print("bad",bad)
d0="/tmp/scratch/ck12z"; shutil.rmtree(d0,ignore_errors=True)
s=ValueIteration(P(),gamma=0.9,verbose=0,checkpoint_dir=d0,checkpoint_frequency=0); s.solve(3); print("f=0 dir exists:", os.path.exists(d0))
