import sys, jax, traceback
jax.config.update("jax_enable_x64", True)
import numpy as np, jax.numpy as jnp
from tab import Tab, rand
from mdpax.utils.batch_processing import BatchProcessor
from mdpax.solvers import ValueIteration, SemiAsyncValueIteration, PolicyIteration
variant = sys.argv[1]
def ub(self, batched_results):
    results = jnp.reshape(batched_results, (-1, *batched_results.shape[3:]))
    if variant == "slice_always":
        return results[: self.n_states]
    if variant == "devput0":
        results = jax.device_put(results, jax.devices()[0])
    if variant == "replicate":
        from jax.sharding import NamedSharding, PartitionSpec as P, Mesh
        mesh = Mesh(np.array(jax.devices()[:self.n_devices]), ("d",))
        results = jax.device_put(results, NamedSharding(mesh, P()))
    if variant == "asarray":
        results = jnp.asarray(np.asarray(results))
    if self.n_pad > 0:
        return results[: -self.n_pad]
    return results
if variant != "orig":
    BatchProcessor.unbatch_results = ub
for cls in (ValueIteration, SemiAsyncValueIteration, PolicyIteration):
  for S, mb in ((128,64),(130,64),(128,16)):
    pr = Tab(*rand(S,3,4,0))
    try:
        s = cls(pr, gamma=0.9, epsilon=1e-3, verbose=0, max_batch_size=mb)
        r = s.solve(1000)
        print(variant, cls.__name__, S, mb, "ok", r.info.iteration, s.batch_processor.batch_shape, s.n_pad, float(r.values.sum()))
    except Exception as e:
        print(variant, cls.__name__, S, mb, "FAIL", type(e).__name__, str(e)[:100])
