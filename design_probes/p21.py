import sys, jax; jax.config.update("jax_enable_x64", True)
import numpy as np
from tab import Tab
from ref import tables
from mdpax.solvers import RelativeValueIteration, PeriodicValueIteration
shard=int(sys.argv[1]) if len(sys.argv)>2 else 0; nsh=int(sys.argv[2]) if len(sys.argv)>2 else 1
def avg_eval(P,R,pi):
    S=len(pi); Pp=P[np.arange(S),pi]; Rp=R[np.arange(S),pi]
    A=np.zeros((S+1,S+1)); A[:S,:S]=np.eye(S)-Pp; A[:S,S]=1; A[S,0]=1
    x=np.linalg.solve(A,np.append(Rp,0)); return x[S],x[:S]
def avg_pi(P,R):
    S=P.shape[0]; pi=np.zeros(S,int)
    for _ in range(500):
        g,h=avg_eval(P,R,pi); q=R+P@h; new=q.argmax(1); keep=q[np.arange(S),pi]>=q.max(1)-1e-11; new=np.where(keep,pi,new)
        if (new==pi).all(): return g,h,pi
        pi=new
    raise RuntimeError
def gen(r, periodic=0):
    S=int(r.integers(3,20)); A=int(r.integers(1,4)); E=int(r.integers(2,5))
    nxt=r.integers(0,S,size=(S,A,E)); prob=r.dirichlet(np.ones(E),size=(S,A))
    delta=float(r.choice([0.3,0.05,0.01]))
    nxt[:,:,0]=0; prob=prob*(1-delta)/ (1-prob[:,:,:1]+1e-300)* (1) if False else prob
    prob[:,:,0]=delta; rest=prob[:,:,1:]; prob[:,:,1:]=rest/rest.sum(-1,keepdims=True)*(1-delta)
    # state 0 goes to 0 under event 0 => self loop => aperiodic, common state => unichain
    rew=r.normal(size=(S,A,E))*3+2
    return nxt,rew,prob
if __name__!="__main__": raise SystemExit if False else None
worstg=worstp=worstres=0; n=0; nc=0
for seed in range(shard,320,nsh):
    r=np.random.default_rng(seed); nxt,rew,prob=gen(r); P,R=tables(nxt,rew,prob); S=P.shape[0]
    gs,h,_=avg_pi(P,R); eps=float(10**r.uniform(-6,0))
    init=None if r.random()<0.5 else r.normal(size=S)*5
    s=RelativeValueIteration(Tab(nxt,rew,prob,init=init),epsilon=eps,verbose=0,max_batch_size=int(r.choice([1,3,1024])))
    res=s.solve(20000); n+=1
    if res.info.iteration>=20000: nc+=1; continue
    gain=float(res.info.gain); v=np.asarray(res.values).reshape(-1); pi=np.asarray(res.policy)[:,0].astype(int)
    gp,_=avg_eval(P,R,pi); resid=np.abs((R+P@v).max(1)-v-gain).max()
    worstg=max(worstg,abs(gain-gs)/eps); worstp=max(worstp,(gs-gp)/eps); worstres=max(worstres,resid/eps)
    if abs(gain-gs)>eps+1e-9 or gs-gp>eps+1e-9 or resid>eps+1e-9: print("EXCEED rvi",seed,eps,res.info.iteration,abs(gain-gs)/eps,(gs-gp)/eps,resid/eps, "init" if init is not None else "")
print("shard",shard,"rvi n",n,"notconv",nc,"worst ratios gain/policy/resid",round(worstg,3),round(worstp,3),round(worstres,3))
