import subprocess, sys, os, json, shutil, concurrent.futures as cf
mode=sys.argv[1]; solver=sys.argv[2]; N=int(sys.argv[3]); step=int(sys.argv[4]); delay=sys.argv[5] if len(sys.argv)>5 else "0"
env=dict(os.environ, JAX_PLATFORMS="cpu", XLA_FLAGS="--xla_cpu_multi_thread_eigen=false intra_op_parallelism_threads=1")
ref=[l.split() for l in open(f"d_ref_{solver}_{mode}.log")]
refdone=[l for l in ref if l[0]=="DONE"][0]
def one(n):
    D=f"/tmp/scratch/crash/d_{solver}_{mode}_{n}"; shutil.rmtree(D,ignore_errors=True)
    try: os.remove(D+".log")
    except FileNotFoundError: pass
    p=subprocess.run(["/venv/bin/python","child.py",D,str(n),mode,solver,delay],env=env,capture_output=True,timeout=300)
    log=[l.split() for l in open(D+".log")]
    calls={}
    for l in log:
        if l[0]=="SAVE_CALL": calls[int(l[1])]=(l[3], l[4] if len(l)>4 else "")
    committed=[int(l[1]) for l in log if l[0]=="COMMITTED"]
    killed=[l for l in log if l[0]=="KILL"]
    site=None
    if killed:
        ev=[l for l in log if l[0]=="EV" and l[1]==killed[0][1]][0]; site=(ev[2].rstrip("0123456789_"),ev[3])
    r=subprocess.run(["/venv/bin/python","restore.py",D,solver],env=env,capture_output=True,timeout=300,text=True)
    line=[l for l in r.stdout.splitlines() if l.startswith("RESULT ")]
    res=json.loads(line[0][7:]) if line else dict(ok=False,err="NOOUT",msg=r.stderr[-300:])
    verdict="ok"
    if not res["ok"]:
        if committed: verdict="FAIL-restore-raised-but-committed:"+res["err"]+":"+res["msg"][:80]
        elif res["err"] in ("ValueError","FileNotFoundError"): verdict="clean-fail"
        else: verdict="FAIL-unclean:"+res["err"]+":"+res["msg"][:80]
    else:
        k=res["iteration"]
        if k not in calls: verdict=f"FAIL-unknown-step {k}"
        elif calls[k][0]!=res["vh"] or (calls[k][1] and calls[k][1]!=res.get("extra","")): verdict=f"FAIL-torn step {k}"
        elif committed and k<max(committed): verdict=f"FAIL-older {k}<{max(committed)}"
        elif (str(res["final_iter"]),res["final_vh"],res["final_ph"])!=(refdone[1],refdone[2],refdone[3]): verdict=f"FAIL-final {res['final_iter']} vs {refdone[1]}"
    shutil.rmtree(D,ignore_errors=True); os.remove(D+".log")
    return n,p.returncode,site,res.get("iteration"),max(committed) if committed else None,verdict
with cf.ThreadPoolExecutor(16) as ex:
    out=list(ex.map(one, range(1,N+1,step)))
from collections import Counter
print(Counter(o[5] for o in out)); print("sites",Counter(o[2] for o in out)); print("rc",Counter(o[1] for o in out))
for o in out:
    if o[5].startswith("FAIL"): print(o)
