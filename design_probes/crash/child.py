import sys, os, threading, hashlib, signal, time, json
D=sys.argv[1]; kill_at=int(sys.argv[2]); mode=sys.argv[3]; solver_name=sys.argv[4]; delay=float(sys.argv[5]) if len(sys.argv)>5 else 0.0
LOG=os.open(D+".log", os.O_WRONLY|os.O_CREAT|os.O_APPEND)
def log(*a): os.write(LOG, (" ".join(str(x) for x in a)+"\n").encode())
cnt=[0]; lock=threading.Lock(); pending=set(); committed=set()
W={"os.mkdir","os.remove","os.rename","os.rmdir","shutil.rmtree","open"}
def hook(name,args):
    if name not in W: return
    try: p=str(args[0])
    except Exception: return
    if not p.startswith(D+"/") and p!=D: return
    if name=="open" and (len(args)<2 or args[1] is None or not any(c in str(args[1]) for c in "wax+")): return
    with lock:
        cnt[0]+=1; n=cnt[0]
        for k in list(pending):
            if os.path.isdir(f"{D}/{k}") : committed.add(k); pending.discard(k); log("COMMITTED",k)
        tn=threading.current_thread().name
        log("EV",n,tn,name,p[len(D):], str(args[1])[len(D):] if name=="os.rename" else "")
        if n==kill_at:
            log("KILL",n); os.kill(os.getpid(), signal.SIGKILL)
    if delay and not tn.startswith("MainThread"): time.sleep(delay)
sys.addaudithook(hook)
import jax; jax.config.update("jax_enable_x64", True)
import numpy as np
from mdpax.problems import DeMoorSingleProductPerishable
from mdpax.solvers import ValueIteration, PeriodicValueIteration, PolicyIteration
P=DeMoorSingleProductPerishable(max_order_quantity=3, max_demand=8)
kw=dict(gamma=0.9, epsilon=1e-3, verbose=0, checkpoint_dir=D, checkpoint_frequency=2, max_checkpoints=2, enable_async_checkpointing=(mode=="async"))
if solver_name=="vi": s=ValueIteration(P, convergence_test="max_diff", **kw)
elif solver_name=="per": s=PeriodicValueIteration(P, period=3, clear_value_history_on_convergence=False, **kw)
else: s=PolicyIteration(P, max_eval_iter=5, **kw)
def h(x): return hashlib.sha256(np.ascontiguousarray(np.asarray(x)).tobytes()).hexdigest()[:16]
orig=s.save
def save(step):
    st=s.solver_state
    extra=""
    if hasattr(st.info,"value_history"): extra=h(st.info.value_history)+":"+str(st.info.history_index)
    if solver_name=="pi": extra=h(st.policy)
    log("SAVE_CALL",step,s.iteration,h(st.values),extra); pending.add(step)
    r=orig(step); log("SAVE_RET",step); return r
s.save=save
log("SOLVE")
res=s.solve(14)
if s.checkpoint_manager is not None: s.checkpoint_manager.wait_until_finished()
log("DONE",res.info.iteration,h(res.values),h(res.policy))
