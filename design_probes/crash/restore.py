import sys, os, hashlib, json
D=sys.argv[1]; solver_name=sys.argv[2]
import jax; jax.config.update("jax_enable_x64", True)
import numpy as np
from mdpax.solvers import ValueIteration, PeriodicValueIteration, PolicyIteration
cls={"vi":ValueIteration,"per":PeriodicValueIteration,"pi":PolicyIteration}[solver_name]
def h(x): return hashlib.sha256(np.ascontiguousarray(np.asarray(x)).tobytes()).hexdigest()[:16]
out={}
try:
    s=cls.restore(D)
    st=s.solver_state
    out=dict(ok=True, iteration=int(s.iteration), vh=h(st.values))
    if hasattr(st.info,"value_history"): out["extra"]=h(st.info.value_history)+":"+str(st.info.history_index)
    if solver_name=="pi": out["extra"]=h(st.policy)
    rem=14-s.iteration
    res=s.solve(rem if solver_name!="pi" else 14) if (rem>0 or solver_name=="pi") else s.solver_state
    if rem<=0 and solver_name!="pi": s.policy=s._extract_policy(); res=s.solver_state
    s.checkpoint_manager.wait_until_finished()
    out.update(final_iter=int(res.info.iteration), final_vh=h(res.values), final_ph=h(res.policy))
except Exception as e:
    out.update(ok=False, err=type(e).__name__, msg=str(e)[:200])
print("RESULT "+json.dumps(out))
