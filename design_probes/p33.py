import jax; jax.config.update("jax_enable_x64", True)
import numpy as np, jax.numpy as jnp
from tab import Tab, rand
from ref import *
from mdpax.solvers import ValueIteration, PolicyIteration
S,A,E=13,3,4; nxt,rew,prob=rand(S,A,E,5); P,R=tables(nxt,rew,prob); g=0.9
s=ValueIteration(Tab(nxt,rew,prob),gamma=g,epsilon=1e-3,verbose=0,max_batch_size=5)
r=np.random.default_rng(0); w=0
for t in range(200):
    V=r.normal(size=S)*10.0**r.integers(-2,4) if t%3 else np.eye(S)[t%S]*5.0
    s.values=jnp.asarray(V) if t%2 else V
    it0=s.iteration; res=s.solve(1)
    LV=(R+g*P@V).max(1); w=max(w,np.abs(np.asarray(res.values)-LV).max()/(1+np.abs(LV).max()))
    q=R+g*P@LV; pol=np.asarray(res.policy)[:,0]; assert (q[np.arange(S),pol]>=q.max(1)-1e-9).all(); assert s.iteration==it0+1
print("VI injection worst rel err",w)
# PI injection
eps=1e-6; pi_s=PolicyIteration(Tab(nxt,rew,prob),gamma=g,epsilon=eps,verbose=0,max_batch_size=4,convergence_test="max_diff",max_eval_iter=100000)
w=0
for t in range(30):
    pol=r.integers(0,A,size=S); V0=r.normal(size=S)
    pi_s.policy=jnp.asarray(pol.reshape(-1,1)); pi_s.values=jnp.asarray(V0)
    res=pi_s.solve(1)
    vp=evalpi(P,R,pol,g); v=np.asarray(res.values).reshape(-1); w=max(w,np.abs(v-vp).max()/(eps/g))
    q=R+g*P@v; newpol=np.asarray(res.policy)[:,0]; assert (q[np.arange(S),newpol]>=q.max(1)-1e-9).all()
print("PI injected-policy evaluation: worst |v - v^pi| / (eps/gamma) =",w)
