import jax; jax.config.update("jax_enable_x64", True)
import numpy as np, itertools, dataclasses
from jax import vmap
from mdpax.problems import Forest, DeMoorSingleProductPerishable, HendrixTwoProductPerishable, MirjaliliPlateletPerishable
from refp import *
def tables(p):
    f=vmap(vmap(vmap(p.transition,(None,None,0)),(None,0,None)),(0,None,None))
    ns,rw=f(p.state_space,p.action_space,p.random_event_space)
    return np.asarray(ns), np.asarray(rw).reshape(p.n_states,p.n_actions,p.n_random_events)
def run(name,prob,step,params):
    ns,rw=tables(prob); S=np.asarray(prob.state_space); A=np.asarray(prob.action_space); E=np.asarray(prob.random_event_space)
    bad=0; n=0; und=0; cons=0
    for i,s in enumerate(S):
        for j,a in enumerate(A):
            for k,e in enumerate(E):
                r=step(params,tuple(int(x) for x in s),tuple(int(x) for x in a),tuple(int(x) for x in e))
                if r is None: und+=1; continue
                n+=1
                if tuple(int(x) for x in ns[i,j,k])!=r[0] or abs(float(rw[i,j,k])-r[1])>1e-9:
                    bad+=1
                    if bad<4: print("  MISMATCH",name,s,a,e,"impl",ns[i,j,k],float(rw[i,j,k]),"ref",r[0],r[1])
                l=r[2]
                if l and l["opening"]+l["receipts"]!=l["issued"]+l["expired"]+l["closing"]: cons+=1
    print(name,params if len(str(params))<150 else "",(len(S),len(A),len(E)),"triples",n,"undefined",und,"mismatch",bad,"ref-ledger-violations",cons)
asd=lambda cfg:{k:v for k,v in dataclasses.asdict(cfg).items()}
for kw in (dict(S=5,r1=4.,r2=2.,p=0.1),dict(S=1),dict(S=2,r1=-1.,r2=7.)):
    p=Forest(**kw); run("forest",p,forest_step,asd(p.config))
for m in (1,2,3,4):
  for L in (1,2,3):
    for pol in ("fifo","lifo"):
        if m+L>5: continue
        p=DeMoorSingleProductPerishable(max_useful_life=m,lead_time=L,issue_policy=pol,max_order_quantity=2,max_demand=5,variable_order_cost=3.,shortage_cost=5.,wastage_cost=7.,holding_cost=1.5)
        run("demoor",p,demoor_step,asd(p.config))
for m,qa,qb in ((1,2,3),(2,2,1),(3,1,1)):
    p=HendrixTwoProductPerishable(max_useful_life=m,max_order_quantity_a=qa,max_order_quantity_b=qb,sales_price_a=1.5,variable_order_cost_b=0.25)
    run("hendrix",p,hendrix_step,asd(p.config))
for m,Q,D in ((1,3,4),(2,3,4),(3,2,3),(4,1,2)):
    p=MirjaliliPlateletPerishable(max_useful_life=m,max_order_quantity=Q,max_demand=D,useful_life_at_arrival_distribution_c_0=tuple([1.0]*(m-1)),useful_life_at_arrival_distribution_c_1=tuple([0.1]*(m-1)),variable_order_cost=0.5)
    run("mirj",p,mirj_step,{k:v for k,v in asd(p.config).items() if "weekday" not in k})
