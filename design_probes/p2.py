import sys, time, jax, traceback
jax.config.update("jax_enable_x64", True)
import numpy as np
from tab import Tab, rand
from mdpax.solvers import ValueIteration, PolicyIteration, SemiAsyncValueIteration, RelativeValueIteration, PeriodicValueIteration
print(len(jax.devices()))
for S, mb in ((7,4),(128,64),(130,64),(256,64),(3,4),(128,16)):
    pr = Tab(*rand(S,3,4,0))
    try:
        s = ValueIteration(pr, gamma=0.9, epsilon=1e-3, verbose=0, max_batch_size=mb)
        r = s.solve(1000)
        print(S, mb, "ok", r.info.iteration, s.batch_processor.batch_shape, s.n_pad, float(r.values.sum()))
    except Exception as e:
        print(S, mb, "FAIL", s.batch_processor.batch_shape if 's' in dir() else None, type(e).__name__, str(e)[:300])
