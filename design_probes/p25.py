import jax; jax.config.update("jax_enable_x64", True)
import numpy as np, scipy.stats as st, itertools
from jax import vmap
from mdpax.problems import HendrixTwoProductPerishable
def exact_joint(sa,sb,la,lb,ps,N=None):
    N=N or int(max(st.poisson.ppf(1-1e-16,la),st.poisson.ppf(1-1e-16,lb)))+5
    pa=st.poisson.pmf(np.arange(N+1),la); pb=st.poisson.pmf(np.arange(N+1),lb)
    out=np.zeros((sa+1,sb+1))
    for db in range(N+1):
        ib=min(db,sb); x=max(db-sb,0)
        pu=st.binom.pmf(np.arange(x+1),x,ps)
        for u in range(x+1):
            if pu[u]==0: continue
            # da + u -> ia
            tot=np.arange(N+1)+u
            ia=np.minimum(tot,sa)
            np.add.at(out[:,ib], ia, pa*pb[db]*pu[u])
    return out
def trunc_deficit(sa,sb,la,lb,ps,md):
    # mass the documented truncation loses: db >= md, or sb<=db<md and da+U>md
    N=int(max(st.poisson.ppf(1-1e-16,la),st.poisson.ppf(1-1e-16,lb)))+md+5
    pa=st.poisson.pmf(np.arange(N+1),la); pb=st.poisson.pmf(np.arange(N+1),lb)
    lost=pb[md:].sum() + (1-pb.sum())
    for db in range(sb,md):
        x=db-sb; pu=st.binom.pmf(np.arange(x+1),x,ps)
        for u in range(x+1):
            # da + u > md  ; note pa in impl only tabulated to md: da<=md
            lost+=pb[db]*pu[u]*(pa[max(md-u+1,0):].sum()+(1-pa.sum()))
    return lost
worst=0
for kw in (dict(max_order_quantity_a=3,max_order_quantity_b=3), dict(max_order_quantity_a=2,max_order_quantity_b=3,max_useful_life=1,demand_poisson_mean_a=3.,demand_poisson_mean_b=8.),
           dict(max_order_quantity_a=3,max_order_quantity_b=2,substitution_probability=1.0), dict(max_order_quantity_a=2,max_order_quantity_b=2,substitution_probability=0.0,max_useful_life=3),
           dict(max_order_quantity_a=1,max_order_quantity_b=4,demand_poisson_mean_a=12.,demand_poisson_mean_b=0.7,substitution_probability=0.3), dict(max_order_quantity_a=6,max_order_quantity_b=6)):
    p=HendrixTwoProductPerishable(**kw); m=p.max_useful_life
    f=vmap(vmap(p.random_event_probability,(None,None,0)),(0,None,None))
    pr=np.asarray(f(p.state_space,p.action_space[0],p.random_event_space)).reshape(p.n_states,p.max_stock_a+1,p.max_stock_b+1)
    seen={}
    wd=wc=0
    for i,s in enumerate(np.asarray(p.state_space)):
        sa=int(s[:m].sum()); sb=int(s[m:].sum())
        if (sa,sb) in seen: continue
        seen[(sa,sb)]=1
        ex=exact_joint(sa,sb,p.demand_poisson_mean_a,p.demand_poisson_mean_b,p.substitution_probability)
        impl=pr[i]
        deficit=1-impl.sum(); pred=trunc_deficit(sa,sb,p.demand_poisson_mean_a,p.demand_poisson_mean_b,p.substitution_probability,p.max_demand)
        wd=max(wd,abs(deficit-pred)); 
        cell=impl[:sa+1,:sb+1]; wc=max(wc,(cell-ex).max()); 
        outside=impl.sum()-cell.sum()
        l1=np.abs(ex-cell).sum()
        if abs(deficit-pred)>1e-9 or (cell-ex).max()>1e-9 or outside>1e-12 or l1>pred+1e-9: print("MISMATCH",kw,sa,sb,deficit,pred,(cell-ex).max(),outside,l1)
    print(kw, "md",p.max_demand,"pairs",len(seen),"max|deficit-pred|",wd,"max(impl-exact)",wc, "deficit range", 1-pr.sum((1,2)).max(), 1-pr.sum((1,2)).min())
