import jax; jax.config.update("jax_enable_x64", True)
import numpy as np, jax.numpy as jnp
from mdpax.utils.batch_processing import BatchProcessor
_o=BatchProcessor.unbatch_results
def ub(self,b):
    r=_o(self,b)
    return jax.device_put(r, jax.devices()[0]) if self.n_devices>1 else r
BatchProcessor.unbatch_results=ub
from tab import Tab, rand
from ref import *
from gsref import gs_sweep
from mdpax.solvers import SemiAsyncValueIteration
allok=True; shapes=set()
for seed in range(10):
  for shuffle in (False, True):
    r=np.random.default_rng(seed); S=int(r.integers(3,140)); A=3; E=3; mb=int(r.choice([1,2,5,64,70]))
    nxt,rew,prob=rand(S,A,E,seed); P,R=tables(nxt,rew,prob); g=0.9
    s=SemiAsyncValueIteration(Tab(nxt,rew,prob), gamma=g, epsilon=1e-12, verbose=0, max_batch_size=mb, shuffle_states=shuffle, random_seed=seed, convergence_test="max_diff")
    perms=[]; orig=s._jitted_shuffle_states
    def wrap(k, orig=orig):
        out=orig(k); perms.append(np.asarray(out[0])); return out
    s._jitted_shuffle_states=wrap
    v=np.zeros(S); ok=True
    for it in range(4):
        s.solve(1)
        order = perms[-1] if shuffle else np.arange(S)
        v = gs_sweep(P,R,g,v,order,s.batch_processor.batch_shape,S)
        ok &= np.allclose(np.asarray(s.values), v, rtol=1e-12, atol=1e-12)
    allok&=ok; shapes.add(s.batch_processor.batch_shape+(s.n_pad,))
    if not ok: print("MISMATCH",seed,shuffle,S,mb,s.batch_processor.batch_shape,s.n_pad)
print(len(jax.devices()),"devices allok",allok,"shapes",sorted(shapes))
