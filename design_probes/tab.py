import numpy as np, jax, jax.numpy as jnp
from mdpax.core.problem import Problem
class Tab(Problem):
    """Random tabular MDP: next[s,a,e], rew[s,a,e], prob[s,a,e]."""
    def __init__(self, nxt, rew, prob, init=None):
        self.S, self.A, self.E = nxt.shape
        self._nxt = jnp.array(nxt, dtype=jnp.int32); self._rew = jnp.array(rew); self._prob = jnp.array(prob)
        self._init = None if init is None else jnp.array(init)
        super().__init__()
    @property
    def name(self): return "tab"
    def _construct_state_space(self): return jnp.arange(self.S, dtype=jnp.int32).reshape(-1,1)
    def _construct_action_space(self): return jnp.arange(self.A, dtype=jnp.int32).reshape(-1,1)
    def _construct_random_event_space(self): return jnp.arange(self.E, dtype=jnp.int32).reshape(-1,1)
    def state_to_index(self, s): return s[0]
    def random_event_probability(self, s, a, e): return self._prob[s[0], a[0], e[0]]
    def transition(self, s, a, e):
        return jnp.array([self._nxt[s[0], a[0], e[0]]]), self._rew[s[0], a[0], e[0]]
    def initial_value(self, s):
        return 0.0 if self._init is None else self._init[s[0]]
def rand(S, A, E, seed):
    r = np.random.default_rng(seed)
    nxt = r.integers(0, S, size=(S,A,E)); rew = r.normal(size=(S,A,E))*3
    p = r.dirichlet(np.ones(E), size=(S,A))
    return nxt, rew, p
