import numpy as np
def tables(nxt, rew, prob):
    S,A,E = nxt.shape
    P = np.zeros((S,A,S)); 
    for s in range(S):
        for a in range(A):
            np.add.at(P[s,a], nxt[s,a], prob[s,a])
    R = (rew*prob).sum(-1)
    return P,R
def evalpi(P,R,pi,g):
    S=len(pi); Pp = P[np.arange(S),pi]; Rp = R[np.arange(S),pi]
    return np.linalg.solve(np.eye(S)-g*Pp, Rp)
def vstar(P,R,g):
    S,A,_=P.shape; pi=np.zeros(S,int)
    for _ in range(1000):
        v=evalpi(P,R,pi,g); q=R+g*P@v; new=q.argmax(1)
        # keep old action on ties
        keep = q[np.arange(S),pi] >= q.max(1)-1e-12
        new = np.where(keep, pi, new)
        if (new==pi).all(): return v,pi
        pi=new
    raise RuntimeError
