# Pure-python scalar models written from the class docstrings (prototype)
def issue(stock, demand, oldest_first=True):
    """stock: list, index 0 = freshest, last = oldest. returns (remaining list, issued)"""
    rem=list(stock); d=demand
    order=range(len(rem)-1,-1,-1) if oldest_first else range(len(rem))
    for i in order:
        take=min(rem[i],d); rem[i]-=take; d-=take
    return rem, demand-d
def demoor_step(p, s, a, e):
    L,m=p["lead_time"],p["max_useful_life"]
    transit=list(s[:L-1]); stock=list(s[L-1:]); order=a[0]; demand=e[0]
    rem,issued=issue(stock,demand,oldest_first=(p["issue_policy"]=="fifo"))
    shortage=demand-issued
    expired=rem[-1]
    holding=sum(rem[:-1])
    pipeline=[order]+transit           # newest first
    arriving=pipeline[-1]
    next_stock=[arriving]+rem[:-1]
    next_transit=pipeline[:-1]
    cost=p["variable_order_cost"]*order+p["shortage_cost"]*shortage+p["wastage_cost"]*expired+p["holding_cost"]*holding
    ledger=dict(opening=sum(stock),receipts=arriving,issued=issued,expired=expired,closing=sum(next_stock))
    return tuple(next_transit+next_stock), -cost, ledger
def hendrix_step(p,s,a,e):
    m=p["max_useful_life"]; sa=list(s[:m]); sb=list(s[m:]); ia,ib=e
    if ia>sum(sa) or ib>sum(sb): return None
    ra,_=issue(sa,ia); rb,_=issue(sb,ib)
    ns=[a[0]]+ra[:-1]+[a[1]]+rb[:-1]
    rew=p["sales_price_a"]*ia+p["sales_price_b"]*ib-p["variable_order_cost_a"]*a[0]-p["variable_order_cost_b"]*a[1]
    ledger=dict(opening=sum(sa)+sum(sb),receipts=a[0]+a[1],issued=ia+ib,expired=ra[-1]+rb[-1],closing=sum(ns))
    return tuple(ns),rew,ledger
def mirj_step(p,s,a,e):
    m=p["max_useful_life"]; Q=p["max_order_quantity"]; wd=s[0]; stock=list(s[1:]); order=a[0]; demand=e[0]; rec=list(e[1:])
    opening=[0]+stock
    after_delivery=[min(max(x+r,0),Q) for x,r in zip(opening,rec)]   # units above the per-age cap are not accepted
    accepted=sum(after_delivery)-sum(opening)
    rem,issued=issue(after_delivery,demand)
    shortage=demand-issued; expired=rem[-1]; holding=sum(rem)
    cost=p["variable_order_cost"]*order+p["fixed_order_cost"]*(1 if order>0 else 0)+p["shortage_cost"]*shortage+p["wastage_cost"]*expired+p["holding_cost"]*holding
    ns=[(wd+1)%7]+rem[:-1]
    ledger=dict(opening=sum(stock),receipts=accepted,issued=issued,expired=expired,closing=sum(rem[:-1]))
    return tuple(ns),-cost,ledger
def forest_step(p,s,a,e):
    S=p["S"]; age=s[0]; cut=a[0]==1; fire=e[0]==1
    if cut: rew = p["r2"] if age==S-1 else (0.0 if age==0 else 1.0)
    else:   rew = p["r1"] if age==S-1 else 0.0
    # doc: waiting + fire => reset with no reward?  (compare)
    ns = 0 if (cut or fire) else min(age+1,S-1)
    return (ns,),rew,{}
