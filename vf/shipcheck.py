"""Worker-side oracles for the shipped problems (C13-C16): complete-table checks."""

import dataclasses

import numpy as np

from vf import refproblems as rp
from vf import shipped


def load(case):
    """Build the real problem and its complete tables. -> dict"""
    import jax

    from vf import target

    name = case["name"]
    problem = target.call("construct shipped problem", shipped.make, name, case["params"])
    cfg = dataclasses.asdict(problem.config)
    p = {k: (list(v) if isinstance(v, (tuple, list)) else v) for k, v in cfg.items() if not k.startswith("_")}
    tb = target.problem_tables(problem)
    SS = np.asarray(problem.state_space)
    AA = np.asarray(problem.action_space)
    EE = np.asarray(problem.random_event_space)
    idx_self = np.asarray(target.call("state_to_index(states)", jax.vmap(problem.state_to_index), problem.state_space))
    return dict(name=name, p=p, problem=problem, SS=SS, AA=AA, EE=EE, idx_self=idx_self, **tb)


def size_class(d):
    n = d["SS"].shape[0] * d["AA"].shape[0] * d["EE"].shape[0]
    return "tiny" if n < 2000 else ("small" if n < 50000 else "large")


def param_class(d):
    p, name = d["p"], d["name"]
    if name == "forest":
        return [f"S={'1' if p['S'] == 1 else ('2-5' if p['S'] <= 5 else '>5')}", f"p={p['p']}"]
    if name == "de_moor":
        return [f"m={p['max_useful_life']}", f"L={p['lead_time']}", p["issue_policy"]]
    if name == "hendrix":
        return [f"m={p['max_useful_life']}", f"sub={p['substitution_probability']}",
                "bigmean" if max(p["demand_poisson_mean_a"], p["demand_poisson_mean_b"]) > 8 else "smallmean"]
    return [f"m={p['max_useful_life']}", f"Q={p['max_order_quantity']}"]


# ------------------------------------------------------------------ C13
def c13(d):
    prob = d["prob"]
    name, p = d["name"], d["p"]
    if not np.isfinite(prob).all():
        i = np.argwhere(~np.isfinite(prob))[0]
        return dict(status="violation", kind="non-finite", detail=f"{name} {p}: non-finite probability at (s,a,e) index {i.tolist()}")
    if (prob < -1e-12).any():
        i = np.unravel_index(int(np.argmin(prob)), prob.shape)
        return dict(status="violation", kind="negative", detail=f"{name} {p}: probability {prob[i]!r} at state {d['SS'][i[0]].tolist()} "
                                                                  f"action {d['AA'][i[1]].tolist()} event {d['EE'][i[2]].tolist()}")
    sums = prob.sum(-1)
    dev = np.abs(sums - 1.0)
    base = dict(cls=[name] + param_class(d) + [size_class(d)], n_obs=int(sums.size), worst_dev=float(dev.max()))
    if dev.max() <= 1e-4:
        return dict(status="ok", **base)
    s_, a_ = np.unravel_index(int(np.argmax(dev)), dev.shape)
    what = (f"{name} {p}: probabilities of state {d['SS'][s_].tolist()} action {d['AA'][a_].tolist()} sum to {sums[s_, a_]!r}")
    if name == "hendrix" and (sums <= 1.0 + 1e-9).all():
        # classifier: every deviating row's deficit equals the mass the documented truncation loses
        m = p["max_useful_life"]
        cache = {}
        worst = 0.0
        for s_i in range(sums.shape[0]):
            if dev[s_i].max() <= 1e-4:
                continue
            st = d["SS"][s_i]
            key = (int(st[:m].sum()), int(st[m:].sum()))
            if key not in cache:
                cache[key] = rp.hendrix_truncated_mass(p, *key)
            worst = max(worst, float(np.abs((1.0 - sums[s_i]) - cache[key]).max()))
        if worst <= 1e-9:
            return dict(status="known", key="hendrix-demand-truncation",
                        detail=what + f"; deficit equals the truncated demand mass to {worst:.1e} on all {len(cache)} "
                                      f"deviating stock pairs (max_demand={rp.hendrix_max_demand(p)})", **base)
        what += f"; deficit NOT explained by the documented truncation (mismatch {worst:.3e})"
    return dict(status="violation", kind="row-sum", detail=what, **base)


# ------------------------------------------------------------------ C14
def c14(d):
    name, p = d["name"], d["p"]
    SS, AA, EE = d["SS"], d["AA"], d["EE"]
    rs, ra, re_ = rp.spaces(name, p)
    for label, got, ref, ordered in (("state", SS, rs, True), ("action", AA, ra, True), ("event", EE, re_, False)):
        gl = [tuple(int(x) for x in row) for row in got]
        if len(gl) != len(ref):
            return dict(status="violation", kind="size", detail=f"{name} {p}: {label} space has {len(gl)} rows, documented size {len(ref)}")
        if len(set(gl)) != len(gl):
            return dict(status="violation", kind="duplicate", detail=f"{name} {p}: duplicate rows in the {label} space")
        if set(gl) != set(ref):
            return dict(status="violation", kind="range", detail=f"{name} {p}: {label} space is not the documented set "
                                                                  f"(e.g. {sorted(set(gl) ^ set(ref))[:3]})")
    if not np.array_equal(d["idx_self"], np.arange(len(SS))):
        i = int(np.argmax(d["idx_self"] != np.arange(len(SS))))
        return dict(status="violation", kind="index", detail=f"{name} {p}: state_to_index({SS[i].tolist()}) = {int(d['idx_self'][i])}, its row is {i}")
    pos = d["prob"] > 0
    ns = d["next_states"]
    back = SS[d["nxt"]]
    mism = (back != ns).any(-1) & pos
    n_pos = int(pos.sum())
    if mism.any():
        s_, a_, e_ = np.argwhere(mism)[0]
        return dict(status="violation", kind="closure",
                    detail=f"{name} {p}: state {SS[s_].tolist()} action {AA[a_].tolist()} event {EE[e_].tolist()} (prob "
                           f"{d['prob'][s_, a_, e_]:.3g}) leads to {ns[s_, a_, e_].tolist()} which is not a listed state "
                           f"(index maps it onto {back[s_, a_, e_].tolist()})")
    return dict(status="ok", cls=[name] + param_class(d) + [size_class(d)], n_obs=n_pos, nontrivial=n_pos > 0)


# ------------------------------------------------------------------ C15
def c15(d):
    name, p = d["name"], d["p"]
    SS, AA, EE = d["SS"], d["AA"], d["EE"]
    step = rp.STEP[name]
    ns, rw = d["next_states"], d["rew"]
    St = [tuple(int(x) for x in r) for r in SS]
    At = [tuple(int(x) for x in r) for r in AA]
    Et = [tuple(int(x) for x in r) for r in EE]
    n = und = 0
    rscale = 1.0 + float(np.abs(rw).max())
    for i, s in enumerate(St):
        for j, a in enumerate(At):
            nsi, rwi = ns[i, j], rw[i, j]
            for k, e in enumerate(Et):
                r = step(p, s, a, e)
                if r is None:
                    und += 1
                    continue
                n += 1
                exp_s, exp_r, led = r
                got_s = tuple(int(x) for x in nsi[k])
                if got_s != exp_s or abs(float(rwi[k]) - exp_r) > 1e-9 * rscale:
                    return dict(status="violation", kind="dynamics",
                                detail=f"{name} {p}: state {list(s)} action {list(a)} event {list(e)}: implementation gives "
                                       f"next {list(got_s)} reward {float(rwi[k])!r}; documented dynamics give next {list(exp_s)} "
                                       f"reward {exp_r!r}")
                if led and led["opening"] + led["receipts"] != led["issued"] + led["expired"] + led["closing"]:
                    return dict(status="error", detail=f"harness: scalar model ledger unbalanced at {s},{a},{e}: {led}")
    return dict(status="ok", cls=[name] + param_class(d) + [size_class(d)], n_obs=n, undefined=und, nontrivial=n > 0)


# ------------------------------------------------------------------ C16
def c16(d):
    import jax

    from vf import target

    name, p = d["name"], d["p"]
    SS, AA, EE = d["SS"], d["AA"], d["EE"]
    prob = d["prob"]
    S, A, E = prob.shape
    problem = d["problem"]
    iv = np.asarray(target.call("initial_value(states)", jax.vmap(problem.initial_value), problem.state_space), dtype=float).reshape(-1)
    info = {}
    if name == "forest":
        exp = np.zeros_like(prob)
        for j, a in enumerate(AA):
            for k, e in enumerate(EE):
                exp[:, j, k] = (p["p"] if e[0] == 1 else 1 - p["p"]) if a[0] == 0 else (0.0 if e[0] == 1 else 1.0)
        tol = 1e-9
    elif name == "de_moor":
        pm = rp.de_moor_demand_pmf(p)
        exp = np.broadcast_to(pm[[int(e[0]) for e in EE]], prob.shape)
        tol = 1e-9
    elif name == "mirjalili":
        dp = np.array([rp.mirjalili_demand_pmf(p, wd) for wd in range(7)])           # [7, D+1]
        rpb = np.array([[rp.mirjalili_received_prob(p, int(a[0]), [int(x) for x in e[1:]]) for e in EE] for a in AA])  # [A,E]
        dem = dp[:, [int(e[0]) for e in EE]]                                            # [7,E]
        exp = dem[[int(s[0]) for s in SS]][:, None, :] * rpb[None, :, :]
        tol = 1e-5   # exp(GammaPoisson.log_prob) goes through betaln: ~1e-6 absolute in this jax (DESIGN C16)
    else:
        return _c16_hendrix(d, iv)
    if not np.isfinite(prob).all():
        i = np.argwhere(~np.isfinite(prob))[0]
        return dict(status="violation", kind="non-finite",
                    detail=f"{name} {p}: non-finite event probability at state {SS[i[0]].tolist()} action {AA[i[1]].tolist()} event {EE[i[2]].tolist()}")
    err = np.abs(prob - exp)
    if err.max() > tol:
        s_, a_, e_ = np.unravel_index(int(np.argmax(err)), err.shape)
        return dict(status="violation", kind="distribution",
                    detail=f"{name} {p}: P(event {EE[e_].tolist()} | state {SS[s_].tolist()}, action {AA[a_].tolist()}) = "
                           f"{prob[s_, a_, e_]!r}, documented distribution gives {exp[s_, a_, e_]!r}")
    if np.abs(iv).max() != 0.0:
        return dict(status="violation", kind="initial-value", detail=f"{name}: initial value estimates are not zero (max {np.abs(iv).max()})")
    return dict(status="ok", cls=[name] + param_class(d) + [size_class(d)], n_obs=int(prob.size), worst_err=float(err.max()))


def _c16_hendrix(d, iv):
    p = d["p"]
    SS, EE, prob = d["SS"], d["EE"], d["prob"]
    m = p["max_useful_life"]
    msa, msb = m * p["max_order_quantity_a"], m * p["max_order_quantity_b"]
    # the event distribution must not depend on the action
    if np.abs(prob - prob[:, :1, :]).max() > 1e-12:
        return dict(status="violation", kind="distribution", detail=f"hendrix {p}: event probabilities depend on the action")
    pr = prob[:, 0, :]
    # event rows -> (ia, ib) grid (the listing order is checked by C14; use the rows themselves)
    ia = EE[:, 0].astype(int)
    ib = EE[:, 1].astype(int)
    rev = p["sales_price_a"] * ia + p["sales_price_b"] * ib
    pairs = {}
    for i, s in enumerate(SS):
        pairs.setdefault((int(s[:m].sum()), int(s[m:].sum())), []).append(i)
    keys = sorted(pairs)
    if len(keys) > 48:
        sel = np.linspace(0, len(keys) - 1, 48).astype(int)
        keys = [keys[i] for i in sel]
    worst_cell = worst_l1 = 0.0
    n = 0
    for (sa, sb) in keys:
        ex = rp.hendrix_exact_joint(p, sa, sb)
        tm = rp.hendrix_truncated_mass(p, sa, sb)
        for i in pairs[(sa, sb)][:3]:
            grid = np.zeros((msa + 1, msb + 1))
            grid[ia, ib] = pr[i]
            inside = grid[:sa + 1, :sb + 1]
            outside = grid.sum() - inside.sum()
            if outside > 1e-12:
                return dict(status="violation", kind="distribution",
                            detail=f"hendrix {p}: state {SS[i].tolist()} gives probability {outside:.3g} to issuing more than the stock")
            over = float((inside - ex).max())
            l1 = float(np.abs(ex - inside).sum())
            worst_cell, worst_l1 = max(worst_cell, over), max(worst_l1, l1 - tm)
            if over > 1e-9 or l1 > tm + 1e-9:
                c = np.unravel_index(int(np.argmax(np.abs(inside - ex))), ex.shape)
                return dict(status="violation", kind="distribution",
                            detail=f"hendrix {p}: state {SS[i].tolist()} (stock {sa},{sb}): P(issued {c[0]},{c[1]}) = {inside[c]!r}, "
                                   f"documented compound distribution gives {ex[c]!r}; total |difference| {l1:.3g} exceeds the "
                                   f"truncated tail mass {tm:.3g}")
            # initial value: expected one-step revenue under the implementation's own table, and close to the exact one
            own = float(pr[i] @ rev)
            exact_rev = float(sum(ex[a, b] * (p["sales_price_a"] * a + p["sales_price_b"] * b)
                                  for a in range(sa + 1) for b in range(sb + 1)))
            if abs(iv[i] - own) > 1e-9 * (1 + abs(own)) or abs(iv[i] - exact_rev) > tm * float(rev.max()) + 1e-9 * (1 + exact_rev):
                return dict(status="violation", kind="initial-value",
                            detail=f"hendrix {p}: initial value of state {SS[i].tolist()} is {iv[i]!r}; expected one-step sales "
                                   f"revenue is {own!r} (own table) / {exact_rev!r} (exact)")
            n += 1
    return dict(status="ok", cls=["hendrix"] + param_class(d) + [size_class(d)], n_obs=n, worst_err=max(worst_cell, 0.0))


# ------------------------------------------------------------------ several instances in one process
def run_with_siblings(case, fn):
    """Evaluate the main parameterisation and then its siblings (same structure, other cost /
    distribution parameters) in the SAME process, in order: results must not depend on which
    instances were built or traced before."""
    results = []
    plist = [case["params"]] + list(case.get("siblings", []))
    for i, params in enumerate(plist):
        r = fn(load(dict(name=case["name"], params=params)))
        if i > 0 and r.get("detail"):
            r["detail"] = f"[instance #{i + 1} of {len(plist)} built in this process, same structure as the earlier ones] " + r["detail"]
        results.append(r)
    for st in ("error", "violation", "known"):
        for r in results:
            if r["status"] == st:
                return r
    out = dict(results[0])
    out["n_obs"] = sum(r.get("n_obs", 0) for r in results)
    out["instances"] = len(results)
    for k in ("worst_dev", "worst_err"):
        vals = [r[k] for r in results if r.get(k) is not None]
        if vals:
            out[k] = max(vals)
    if "undefined" in out:
        out["undefined"] = sum(r.get("undefined", 0) for r in results)
    return out
