"""Child of the crash injector (DESIGN 4.5): ``python -m vf.crashchild '<json>'``.

Installs a CPython audit hook *before* mdpax / orbax are imported.  Every file-system event
under the checkpoint directory (mkdir, open-for-write, remove, rename, rmtree, rmdir ...) is
appended to an O_APPEND log with a single os.write (the kernel has the bytes even if we die on
the next line) and can be a failpoint:

    kill_at = n      SIGKILL ourselves on entry to the n-th matching event (before it executes)
    kill_after = n   SIGKILL on the next audit event of *any* kind raised by the same thread after
                     matching event n (i.e. right after that operation completed)
    delay = {thread-name-prefix: seconds}   sleep inside events of background threads only

The solver's public save() is wrapped on the instance to log SAVE_CALL/SAVE_RET with hashes of
what the solver holds; COMMITTED k is logged the first time <dir>/<k>/ is seen to exist.
"""

import json
import os
import signal
import sys
import threading
import time

A = json.loads(sys.argv[1])
D = A["dir"]
LOGF = A["log"]
KILL_AT = A.get("kill_at")
KILL_AFTER = A.get("kill_after")
DELAY = A.get("delay") or {}

_fd = os.open(LOGF, os.O_WRONLY | os.O_CREAT | os.O_APPEND)
_lock = threading.Lock()
_cnt = [0]
_pending = set()
_after_thread = [None]
_t0 = time.time()
WATCH = {"os.mkdir", "os.remove", "os.rename", "os.rmdir", "shutil.rmtree", "open", "os.truncate", "os.replace",
         "os.link", "os.symlink", "shutil.move", "shutil.copyfile"}


def log(*a):
    os.write(_fd, (" ".join(str(x) for x in a) + "\n").encode())


def _hook(name, args):
    th = threading.current_thread()
    if _after_thread[0] is not None and _after_thread[0] == th.ident and not name.startswith("sys."):
        _after_thread[0] = None          # os.kill raises an audit event itself
        for k in list(_pending):         # the operation that just completed may have been the commit itself
            if os.path.isdir(f"{D}/{k}"):
                _pending.discard(k)
                log("COMMITTED", k)
        log("KILL_AFTER", KILL_AFTER, name)
        os.kill(os.getpid(), signal.SIGKILL)
    if name not in WATCH:
        return
    try:
        p = os.fspath(args[0]) if not isinstance(args[0], int) else None
    except Exception:  # noqa: BLE001
        return
    if not isinstance(p, str):
        try:
            p = p.decode()
        except Exception:  # noqa: BLE001
            return
    if not (p == D or p.startswith(D + "/")):
        return
    if name == "open":
        mode = args[1] if len(args) > 1 else None
        if mode is None or not any(c in str(mode) for c in "wax+"):
            return
    with _lock:
        _cnt[0] += 1
        n = _cnt[0]
        for k in list(_pending):
            if os.path.isdir(f"{D}/{k}"):
                _pending.discard(k)
                log("COMMITTED", k)
        dst = ""
        if name in ("os.rename", "os.replace") and len(args) > 1:
            try:
                dst = os.fspath(args[1])[len(D):]
            except Exception:  # noqa: BLE001
                dst = "?"
        log("EV", n, th.name.replace(" ", "_"), name, p[len(D):] or "/", dst, round(time.time() - _t0, 3))
        if KILL_AT is not None and n == KILL_AT:
            log("KILL", n)
            os.kill(os.getpid(), signal.SIGKILL)
        if KILL_AFTER is not None and n == KILL_AFTER:
            _after_thread[0] = th.ident
    if DELAY and th is not threading.main_thread():
        for pre, sec in DELAY.items():
            if th.name.startswith(pre) or pre == "*":
                time.sleep(sec)
                break


sys.addaudithook(_hook)

from vf import target  # noqa: E402,F401  (x64 first, working tree asserted)
from vf import ckpt, common  # noqa: E402

sv = A["solver"]
cls = target.SOLVERS[sv]
kw = dict(ckpt.SOLVER_KW[sv])
kw.update(A.get("kw", {}))
kw.setdefault("verbose", 0)

if A.get("start", "fresh") == "fresh":
    problem = common.build_problem(A["problem"])[0]
    log("CONSTRUCT", round(time.time() - _t0, 3))
    s = cls(problem, checkpoint_dir=D, **kw)
else:
    log("RESTORE", round(time.time() - _t0, 3))
    s = cls.restore(D)
    log("RESTORED", int(s.iteration), json.dumps(ckpt.state_sig(sv, s.solver_state)))

_orig_save = s.save


def _save(step):
    sig = ckpt.state_sig(sv, s.solver_state)
    log("SAVE_CALL", int(step), json.dumps(sig))
    _pending.add(int(step))
    r = _orig_save(step)
    log("SAVE_RET", int(step))
    return r


s.save = _save
n = A["cap"] - int(s.iteration)
if A.get("final_iteration") is not None and int(s.iteration) >= A["final_iteration"]:
    n = 0   # restored a finished run: nothing to continue
log("SOLVE", int(s.iteration), n, round(time.time() - _t0, 3))
if n > 0:
    res = s.solve(n)
    ckpt.wait(s)
    for k in list(_pending):
        if os.path.isdir(f"{D}/{k}"):
            _pending.discard(k)
            log("COMMITTED", k)
    sig = ckpt.state_sig(sv, res)
    sig["policy"] = ckpt.h(res.policy)
    log("DONE", json.dumps(sig), round(time.time() - _t0, 3))
else:
    log("DONE", "null", round(time.time() - _t0, 3))
