"""Tabular MDP presented through the public Problem interface (worker side; imports jax).

The tables live in *row-index space* (index of the listed state/action/event rows); the
solvers only ever see vectors, ``state_to_index``, ``transition`` and
``random_event_probability`` - exactly what a user-defined Problem offers.
"""

import jax.numpy as jnp
import numpy as np
from mdpax.core.problem import Problem

from vf.gen import box_rows


class TabularProblem(Problem):
    def __init__(self, t, prob1=False, name="tabular"):
        self._t = t
        self._name = name
        self._prob1 = prob1
        S = t["nxt"].shape[0]
        self._sbox, self._abox, self._ebox = tuple(t["sbox"]), tuple(t["abox"]), tuple(t["ebox"])
        self._sorigin = np.asarray(t["sorigin"], dtype=np.int32)
        sperm = np.asarray(t["sperm"])
        rows = box_rows(t["sbox"], t["sorigin"])
        self._srows = rows[sperm]                       # listed order
        inv = np.empty(S, dtype=np.int32)
        inv[sperm] = np.arange(S, dtype=np.int32)       # row-major position -> listed index
        self._inv = jnp.array(inv)
        self._identity_order = bool((sperm == np.arange(S)).all())
        self._nxt = jnp.array(t["nxt"], dtype=jnp.int32)
        self._rew = jnp.array(t["rew"], dtype=jnp.int32) if t.get("intrew") else jnp.array(t["rew"])
        self._prob = jnp.array(t["prob"])
        self._init = None if t.get("init") is None else jnp.array(t["init"])
        if self._init is not None and t.get("init_dtype", "float64") != "float64":
            cast = np.asarray(t["init"]).astype(t["init_dtype"])
            if np.array_equal(cast.astype(float), np.asarray(t["init"], dtype=float)):     # only when exactly representable
                self._init = jnp.array(cast)
        self._ipol = None if t.get("ipol") is None else jnp.array(t["ipol"], dtype=jnp.int32)
        super().__init__()

    @property
    def name(self):
        return self._name

    def _construct_state_space(self):
        return jnp.array(self._srows, dtype=jnp.int32)

    def _construct_action_space(self):
        return jnp.array(box_rows(self._abox, [0] * len(self._abox)), dtype=jnp.int32)

    def _construct_random_event_space(self):
        return jnp.array(box_rows(self._ebox, [0] * len(self._ebox)), dtype=jnp.int32)

    def state_to_index(self, state):
        pos = jnp.ravel_multi_index(tuple(jnp.asarray(state) - self._sorigin), self._sbox, mode="clip")
        return pos if self._identity_order else self._inv[pos]

    def _aidx(self, a):
        return jnp.ravel_multi_index(tuple(jnp.asarray(a)), self._abox, mode="clip")

    def _eidx(self, e):
        return jnp.ravel_multi_index(tuple(jnp.asarray(e)), self._ebox, mode="clip")

    def random_event_probability(self, state, action, random_event):
        p = self._prob[self.state_to_index(state), self._aidx(action), self._eidx(random_event)]
        return p.reshape(1) if self._prob1 else p

    def transition(self, state, action, random_event):
        i, j, k = self.state_to_index(state), self._aidx(action), self._eidx(random_event)
        return self.state_space[self._nxt[i, j, k]], self._rew[i, j, k]

    def initial_value(self, state):
        if self._init is None:
            return 0 if self._t.get("init_dtype") == "int32" else 0.0
        return self._init[self.state_to_index(state)]

    def initial_policy(self, state):
        if self._ipol is None:
            raise NotImplementedError("No custom initial policy defined")
        return self.action_space[self._ipol[self.state_to_index(state)]]


class InheritingProblem(TabularProblem):
    """A user-style subclass that inherits everything (initial_value, initial_policy, ...) from its parent."""


def make(spec, t):
    cls = InheritingProblem if spec.get("gseed", 0) % 2 else TabularProblem
    return cls(t, prob1=spec.get("prob1", False))
