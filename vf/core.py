"""Shared runner for the mdpax runtime-monitoring checks (DESIGN.md section 3).

Parent side only: no jax / mdpax import here.  A check is

    parent (this module)  ->  N worker processes (vf.worker)  ->  JSON-lines records

Every record has a ``status``:

    ok          the deciding oracle was reached and the property held on this case
    violation   the oracle refuted the property on this case (``detail`` says how)
    known       the oracle refuted it, and the property module *proved* from independent
                observations that the case is an instance of a named mechanism (``key``)
    skip        the case never reached the deciding oracle for a stated ``reason``
                (not converged, near threshold, ill conditioned, undefined by the model, ...)
    error       the harness itself failed (bug in /verif, dead worker, timeout)

Verdict (three valued, never folded):
    any violation, or a ``known`` record whose key is not listed in known_findings.txt
                                            -> exit 1, ``VIOLATION property=<id> replay=<path>``
    any error, or too few deciding records  -> exit 2, ``INCONCLUSIVE property=<id> reason=...``
    otherwise                               -> exit 0 (KNOWN-FINDING lines for listed keys)
"""

from __future__ import annotations

import concurrent.futures as cf
import hashlib
import importlib
import json
import os
import shutil
import subprocess
import sys
import tempfile
import time
from collections import Counter
from pathlib import Path

ROOT = Path(__file__).resolve().parent.parent
REPO = Path(os.environ.get("MDPAX_REPO", "/repo"))
PY = os.environ.get("MDPAX_PY", "/venv/bin/python")
DEPS = ROOT / ".deps"
N_CORES = int(os.environ.get("VERIF_JOBS", "16"))
# self-mutation runs (tools/mutate.sh) point these elsewhere so they never touch committed evidence
EVID_DIR = Path(os.environ.get("VERIF_EVIDENCE_DIR", str(ROOT / "evidence")))
REPLAY_DIR = Path(os.environ.get("VERIF_REPLAY_DIR", str(ROOT / "replays")))
GUARD = "MDPAX_VERIF"


# --------------------------------------------------------------------------- environment
def ensure_deps() -> None:
    """Install icontract/deal beside the repo's interpreter if a restore dropped them."""
    if (DEPS / "icontract").is_dir():
        return
    DEPS.mkdir(exist_ok=True)
    subprocess.run(
        [PY, "-m", "pip", "install", "--quiet", "--no-index", "--find-links",
         "/opt/veriftools/wheels", "--target", str(DEPS), "icontract", "deal"],
        check=False, stdout=subprocess.DEVNULL, stderr=subprocess.DEVNULL,
        env=dict(os.environ, PIP_NO_INDEX="1"),
    )


def worker_env(devices: int = 1, extra: dict | None = None) -> dict:
    env = dict(os.environ)
    env.update(
        JAX_PLATFORMS="cpu",
        PYTHONHASHSEED="0",
        OMP_NUM_THREADS="1",
        OPENBLAS_NUM_THREADS="1",
        MKL_NUM_THREADS="1",
        TF_CPP_MIN_LOG_LEVEL="3",
        PYTHONPATH=str(ROOT) + os.pathsep + env.get("PYTHONPATH", ""),
        PYTHONDONTWRITEBYTECODE="1",
    )
    env[GUARD] = "1"
    env["XLA_FLAGS"] = (
        f"--xla_force_host_platform_device_count={devices} "
        "--xla_cpu_multi_thread_eigen=false intra_op_parallelism_threads=1 "
        # in-process collectives abort the whole worker when a rendezvous takes longer than 40 s (the default);
        # on a loaded machine the emulated device threads can starve that long - an environment effect, not a verdict
        "--xla_cpu_collective_call_terminate_timeout_seconds=3600 --xla_cpu_collective_timeout_seconds=3600"
    )
    env.pop("JAX_ENABLE_X64", None)
    if extra:
        env.update(extra)
    return env


def repo_fingerprint() -> dict:
    def git(*a):
        try:
            return subprocess.run(["git", "-C", str(REPO), *a], capture_output=True,
                                  text=True, timeout=60).stdout
        except Exception:
            return ""
    diff = git("diff", "HEAD")
    return {
        "repo_head": git("rev-parse", "HEAD").strip(),
        "repo_diff_sha256": hashlib.sha256(diff.encode()).hexdigest()[:16] if diff else "clean",
    }


# --------------------------------------------------------------------------- known findings
def load_known(prop: str) -> dict:
    out = {}
    p = ROOT / "known_findings.txt"
    if not p.exists():
        return out
    for line in p.read_text().splitlines():
        line = line.strip()
        if not line.startswith("finding:"):
            continue
        parts = line.split()
        kv = dict(x.split("=", 1) for x in parts[1:3] if "=" in x)
        if kv.get("property") == prop and "key" in kv:
            out[kv["key"]] = " ".join(parts[3:])
    return out


# --------------------------------------------------------------------------- running workers
def _run_shard(prop, cases, devices, scratch, idx, timeout, extra_env):
    fin = scratch / f"in_{idx}.json"
    fout = scratch / f"out_{idx}.jsonl"
    fin.write_text(json.dumps(cases))
    if isinstance(devices, tuple):
        devices, no_x64 = devices
        if no_x64:
            extra_env = dict(extra_env or {}, VF_NO_X64="1")
    env = worker_env(devices, extra_env)
    t0 = time.time()
    try:
        p = subprocess.run([PY, "-m", "vf.worker", prop, str(fin), str(fout)],
                           env=env, capture_output=True, text=True, timeout=timeout,
                           cwd=str(scratch))
        rc, err = p.returncode, p.stderr[-3000:]
    except subprocess.TimeoutExpired as e:
        rc, err = "timeout", (e.stderr or b"")[-2000:].decode("utf8", "replace") if isinstance(e.stderr, bytes) else str(e.stderr)[-2000:]
    recs = []
    if fout.exists():
        for line in fout.read_text().splitlines():
            try:
                recs.append(json.loads(line))
            except Exception:
                pass
    done = {r.get("case_id") for r in recs}
    missing = [c for c in cases if c["case_id"] not in done]
    if missing:
        for c in missing:
            recs.append({"case_id": c["case_id"], "status": "error",
                         "detail": f"worker rc={rc} produced no record; stderr tail: {err[-800:]}"})
    return recs, time.time() - t0


def run_cases(prop: str, cases: list, scratch: Path, shard_timeout: float,
              target_shards: int | None = None, extra_env: dict | None = None, _retry: bool = False) -> list:
    """Split cases into shards (grouped by device count) and run them on all cores.  Cases whose worker died
    without writing a record (a crash takes the rest of its shard with it) are run once more, one case per
    worker, so that an environment hiccup does not decide anything and a reproducible crash is pinned to its case."""
    # shard key: (device count, 64-bit mode left OFF in the worker).  Cases marked no_x64 run in workers that do
    # not enable 64-bit mode first - the state a problem built before its solver (README order) is constructed in
    by_dev: dict = {}
    for c in cases:
        by_dev.setdefault((int(c.get("devices", 1)), bool(c.get("no_x64"))), []).append(c)
    shards = []
    total = len(cases)
    target = target_shards or N_CORES * 2
    for dev, cs in sorted(by_dev.items()):
        n_sh = max(1, min(len(cs), round(target * len(cs) / max(total, 1)) or 1))
        for i in range(n_sh):
            part = cs[i::n_sh]
            if part:
                shards.append((dev, part))
    records = []
    # a multi-device worker uses `dev` host threads; keep the machine from oversubscribing
    with cf.ThreadPoolExecutor(N_CORES) as ex:
        futs = [ex.submit(_run_shard, prop, part, dev, scratch, i, shard_timeout, extra_env)
                for i, (dev, part) in enumerate(shards)]
        for f in futs:
            recs, _ = f.result()
            records.extend(recs)
    lost = {r["case_id"] for r in records if r.get("status") == "error" and "produced no record" in str(r.get("detail", ""))}
    if lost and not _retry:
        again = [c for c in cases if c["case_id"] in lost]
        sub = Path(scratch) / "retry"
        sub.mkdir(exist_ok=True)
        second = run_cases(prop, again, sub, shard_timeout, target_shards=len(again), extra_env=extra_env, _retry=True)
        for r in second:
            r["retried_after_worker_crash"] = True
        records = [r for r in records if r["case_id"] not in lost] + second
    return records


# --------------------------------------------------------------------------- verdict + evidence
def _digest(obj) -> str:
    return hashlib.sha256(json.dumps(obj, sort_keys=True, default=str).encode()).hexdigest()[:12]


def finish(prop: str, mod, tier: str, seed: int, cases: list, records: list, t0: float,
           extra_cov: dict | None = None, replay_mode: bool = False) -> int:
    known_listed = load_known(prop)
    by_id = {c["case_id"]: c for c in cases}
    st = Counter(r["status"] for r in records)
    ok = [r for r in records if r["status"] == "ok"]
    viol = [r for r in records if r["status"] == "violation"]
    known = [r for r in records if r["status"] == "known"]
    errs = [r for r in records if r["status"] == "error"]
    skips = Counter(r.get("reason", "?") for r in records if r["status"] == "skip")

    unlisted = [r for r in known if r.get("key") not in known_listed]
    violations = viol + unlisted
    known_hits = Counter(r["key"] for r in known if r.get("key") in known_listed)

    # distinct non-trivial classes among deciding cases
    classes = Counter(json.dumps(r["cls"], default=str)
                      for r in ok if r.get("cls") is not None and r.get("nontrivial", True))
    n_obs = sum(int(r.get("n_obs", 1)) for r in ok)
    # modules that enumerate many distinct inputs inside one case report the count themselves
    n_distinct = len(classes)
    if any("distinct" in r for r in ok):
        n_distinct = sum(int(r.get("distinct", 0)) for r in ok)

    cov = {
        "evaluations": (n_obs + len(viol) + len(known)) if getattr(mod, "COUNT_OBS_AS_EVALUATIONS", False) else (len(ok) + len(viol) + len(known)),
        "distinct_nontrivial": n_distinct,
        "rule": getattr(mod, "RULE", ""),
        "samples": [_sample(by_id.get(r["case_id"]), r) for r in (ok[:3] + viol[:2] + known[:2])],
        "cases_generated": len(cases),
        "status_counts": dict(st),
        "observations": n_obs,
        "skipped_by_reason": dict(skips),
        "known_finding_hits": dict(known_hits),
        "harness_errors": len(errs),
        "cases_rerun_after_worker_crash": sum(1 for r in records if r.get("retried_after_worker_crash")),
        "class_histogram_top": [[json.loads(k), v] for k, v in classes.most_common(12)],
    }
    ts = sorted(float(r.get("t", 0.0)) for r in records)
    if ts:
        cov["case_seconds"] = {"sum": round(sum(ts), 1), "median": round(ts[len(ts) // 2], 2),
                               "p95": round(ts[int(len(ts) * 0.95)], 2), "max": round(ts[-1], 2)}
    slow = sorted(records, key=lambda r: -float(r.get("t", 0.0)))[:3]
    cov["slowest_cases"] = [{"case_id": r.get("case_id"), "seconds": r.get("t"), "status": r.get("status"),
                             "cls": r.get("cls"), "reason": r.get("reason")} for r in slow]
    sib = Counter(str(r.get("sibling")) for r in records if r.get("sibling") is not None)
    if sib or getattr(mod, "SIBLING_EVERY", 0):
        # same-shape second problem/solver built after the main case in the same process (vf/worker.py)
        cov["same_shape_sibling_runs"] = dict(sib)
    agg = getattr(mod, "aggregate", None)
    if agg:
        try:
            cov.update(agg(records, cases))
        except Exception as e:  # aggregation is reporting only
            cov["aggregate_error"] = repr(e)
    if extra_cov:
        cov.update(extra_cov)

    # inconclusive conditions
    reasons = []
    if errs:
        reasons.append(f"{len(errs)} harness error(s): {errs[0].get('detail', '')[:300]}")
    if not replay_mode:
        need = getattr(mod, "MIN_DECIDING", {}).get(tier, 1)
        if len(ok) + len(known) < need:
            reasons.append(f"only {len(ok) + len(known)} deciding cases (< {need})")
        if n_distinct < 2:
            reasons.append(f"only {n_distinct} distinct non-trivial cases/classes")
        cc = getattr(mod, "coverage_check", None)
        if cc:
            msg = cc(records, cases, tier)
            if msg:
                reasons.append(msg)

    ev = {
        "property_id": prop,
        "tier": tier,
        "seed": int(seed),
        "level": getattr(mod, "LEVEL", "exploration"),
        "coverage": cov,
        "assumptions": list(getattr(mod, "ASSUMPTIONS", [])),
        "wall_s": round(time.time() - t0, 2),
        "violations": len(violations),
        "verdict": "violated" if violations else ("inconclusive" if reasons else "held"),
        "inconclusive_reasons": reasons,
        **repo_fingerprint(),
    }
    if getattr(mod, "EXHAUSTIVE", False) and not violations and not reasons:
        cov["exhaustive"] = True
    # the schema wants >=1 evaluation and >=2 distinct classes; when a run could not
    # deliver that it is inconclusive and the evidence must say so rather than pretend
    if not replay_mode:
        EVID_DIR.mkdir(parents=True, exist_ok=True)
        (EVID_DIR / f"{prop}.json").write_text(json.dumps(ev, indent=1, default=str))

    for key, n in sorted(known_hits.items()):
        print(f"KNOWN-FINDING: property={prop} key={key} {known_listed[key]} ({n} case(s) this run)")
    print(f"[{prop}] tier={tier} seed={seed} cases={len(cases)} ok={len(ok)} "
          f"violation={len(viol)} known={len(known)} skip={sum(skips.values())} "
          f"error={len(errs)} classes={len(classes)} obs={n_obs} wall={ev['wall_s']}s")
    if skips:
        print(f"[{prop}] skipped: {dict(skips)}")

    if violations:
        REPLAY_DIR.mkdir(parents=True, exist_ok=True)
        seen = set()
        for r in violations[:10]:
            case = by_id.get(r["case_id"], {})
            payload = {"property": prop, "tier": tier, "seed": seed, "case": case, "record": r}
            path = REPLAY_DIR / f"{prop}-{_digest(case)}.json"
            if path in seen:
                continue
            seen.add(path)
            if not replay_mode:
                path.write_text(json.dumps(payload, indent=1, default=str))
            what = r.get("detail") or r.get("key") or ""
            print(f"VIOLATION property={prop} replay={path}")
            print(f"  what: {str(what)[:600]}")
        return 1
    if reasons:
        print(f"INCONCLUSIVE property={prop} reason={'; '.join(reasons)[:800]}")
        return 2
    return 0


def _sample(case, rec):
    c = dict(case or {})
    r = {k: v for k, v in rec.items() if k not in ("case_id",)}
    s = json.dumps({"case": c, "record": r}, default=str)
    if len(s) > 2500:
        r = {k: (v if len(json.dumps(v, default=str)) < 400 else "<elided>") for k, v in r.items()}
        c = {k: (v if len(json.dumps(v, default=str)) < 400 else "<elided>") for k, v in c.items()}
    return {"case": c, "record": r}


# --------------------------------------------------------------------------- entry
def main(argv=None) -> int:
    import argparse

    ap = argparse.ArgumentParser(prog="check")
    ap.add_argument("prop")
    ap.add_argument("--tier", default=os.environ.get("VERIF_TIER", "quick"),
                    choices=["quick", "thorough"])
    ap.add_argument("--replay", default=None)
    ap.add_argument("--limit", type=int, default=None, help="debug: only first N cases")
    a = ap.parse_args(argv)
    prop = a.prop.upper()
    seed = int(os.environ.get("VERIF_SEED", "0"))
    t0 = time.time()
    ensure_deps()
    mod = importlib.import_module(f"vf.props.{prop.lower()}")
    scratch = Path(tempfile.mkdtemp(prefix=f"vf_{prop}_"))
    try:
        if a.replay:
            payload = json.loads(Path(a.replay).read_text())
            cases = [payload["case"]]
            tier = payload.get("tier", a.tier)
            seed = payload.get("seed", seed)
            records = run_cases(prop, cases, scratch, getattr(mod, "SHARD_TIMEOUT", {}).get(tier, 3600), 1)
            post = getattr(mod, "post", None)
            if post:
                records = post(records, cases, tier, scratch)
            return finish(prop, mod, tier, seed, cases, records, t0, replay_mode=True)
        custom = getattr(mod, "run", None)
        if custom:  # property drives its own processes (crash injection etc.)
            cases, records, extra = custom(a.tier, seed, scratch, a.limit)
            return finish(prop, mod, a.tier, seed, cases, records, t0, extra)
        cases = mod.gen_cases(seed, a.tier)
        for i, c in enumerate(cases):
            c.setdefault("case_id", i)
        if a.limit:
            cases = cases[: a.limit]
        records = run_cases(prop, cases, scratch,
                            getattr(mod, "SHARD_TIMEOUT", {}).get(a.tier, 3600),
                            getattr(mod, "TARGET_SHARDS", {}).get(a.tier))
        post = getattr(mod, "post", None)
        if post:
            records = post(records, cases, a.tier, scratch)
        return finish(prop, mod, a.tier, seed, cases, records, t0)
    finally:
        shutil.rmtree(scratch, ignore_errors=True)


if __name__ == "__main__":
    sys.exit(main())
