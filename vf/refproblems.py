"""Independent scalar models of the four shipped problems (DESIGN 4.3).

Written from the class docstrings ("documented dynamics"): pure Python ints and loops for the
transitions, math.lgamma / scipy.stats closed forms for the distributions.  No jax, no numpyro,
no code shared with mdpax.  Stock vectors are ordered freshest first, oldest last (as documented).
"""

import itertools
import math

import numpy as np


# ------------------------------------------------------------------ stock issuing
def issue(stock, demand, oldest_first=True):
    """-> (remaining stock list, units issued)."""
    rem = list(stock)
    d = demand
    order = range(len(rem) - 1, -1, -1) if oldest_first else range(len(rem))
    for i in order:
        take = min(rem[i], d)
        rem[i] -= take
        d -= take
    return rem, demand - d


# ------------------------------------------------------------------ spaces (documented sizes / order)
def box(maxs, mins=None):
    mins = mins or [0] * len(maxs)
    return [tuple(v) for v in itertools.product(*[range(a, b + 1) for a, b in zip(mins, maxs)])]


def spaces(name, p):
    if name == "forest":
        return box([p["S"] - 1]), box([1]), box([1])
    if name == "de_moor":
        m, L, Q, D = p["max_useful_life"], p["lead_time"], p["max_order_quantity"], p["max_demand"]
        return box([Q] * (L - 1 + m)), box([Q]), box([D])
    if name == "hendrix":
        m, qa, qb = p["max_useful_life"], p["max_order_quantity_a"], p["max_order_quantity_b"]
        return box([qa] * m + [qb] * m), box([qa, qb]), box([m * qa, m * qb])
    if name == "mirjalili":
        m, Q, D = p["max_useful_life"], p["max_order_quantity"], p["max_demand"]
        states = box([6] + [Q] * (m - 1))
        recs = [r for r in box([Q] * m) if sum(r) <= Q]
        events = [(d,) + r for r in recs for d in range(D + 1)]   # order is not part of the contract
        return states, box([Q]), events
    raise ValueError(name)


# ------------------------------------------------------------------ transitions
def forest_step(p, s, a, e):
    S = p["S"]
    age = s[0]
    cut, fire = a[0] == 1, e[0] == 1
    if cut:
        rew = p["r2"] if age == S - 1 else (0.0 if age == 0 else 1.0)
    else:
        rew = p["r1"] if age == S - 1 else 0.0
    ns = 0 if (cut or fire) else min(age + 1, S - 1)
    return (ns,), float(rew), {}


def de_moor_step(p, s, a, e):
    L, m = p["lead_time"], p["max_useful_life"]
    transit, stock = list(s[:L - 1]), list(s[L - 1:])
    order, demand = a[0], e[0]
    rem, issued = issue(stock, demand, oldest_first=(p["issue_policy"] == "fifo"))
    shortage = demand - issued
    expired = rem[-1]
    holding = sum(rem[:-1])                      # units in stock at end of period, excluding expiring ones
    pipeline = [order] + transit                 # newest order first
    arriving = pipeline[-1]
    next_stock = [arriving] + rem[:-1]
    next_transit = pipeline[:-1]
    cost = (p["variable_order_cost"] * order + p["shortage_cost"] * shortage
            + p["wastage_cost"] * expired + p["holding_cost"] * holding)
    ledger = dict(opening=sum(stock), receipts=arriving, issued=issued, expired=expired, closing=sum(next_stock),
                  pipeline_in=order, pipeline_shift=(tuple(next_transit) == tuple(pipeline[:-1])))
    return tuple(next_transit + next_stock), -float(cost), ledger


def hendrix_step(p, s, a, e):
    m = p["max_useful_life"]
    sa, sb = list(s[:m]), list(s[m:])
    ia, ib = e
    if ia > sum(sa) or ib > sum(sb):
        return None                              # issuing more than the stock: undefined by the model
    ra, _ = issue(sa, ia)
    rb, _ = issue(sb, ib)
    ns = [a[0]] + ra[:-1] + [a[1]] + rb[:-1]
    rew = (p["sales_price_a"] * ia + p["sales_price_b"] * ib
           - p["variable_order_cost_a"] * a[0] - p["variable_order_cost_b"] * a[1])
    ledger = dict(opening=sum(sa) + sum(sb), receipts=a[0] + a[1], issued=ia + ib,
                  expired=ra[-1] + rb[-1], closing=sum(ns))
    return tuple(ns), float(rew), ledger


def mirjalili_step(p, s, a, e):
    Q = p["max_order_quantity"]
    wd, stock = s[0], list(s[1:])
    order, demand, rec = a[0], e[0], list(e[1:])
    opening = [0] + stock
    after = [min(max(x + r, 0), Q) for x, r in zip(opening, rec)]   # units above the per-age cap are refused
    accepted = sum(after) - sum(opening)
    rem, issued = issue(after, demand)
    shortage = demand - issued
    expired = rem[-1]
    holding = sum(rem)                           # including units about to expire
    cost = (p["variable_order_cost"] * order + p["fixed_order_cost"] * (1 if order > 0 else 0)
            + p["shortage_cost"] * shortage + p["wastage_cost"] * expired + p["holding_cost"] * holding)
    ns = [(wd + 1) % 7] + rem[:-1]
    ledger = dict(opening=sum(stock), receipts=accepted, issued=issued, expired=expired, closing=sum(rem[:-1]))
    return tuple(ns), -float(cost), ledger


STEP = {"forest": forest_step, "de_moor": de_moor_step, "hendrix": hendrix_step, "mirjalili": mirjalili_step}


# ------------------------------------------------------------------ distributions
def de_moor_demand_pmf(p):
    from scipy.stats import gamma

    mean, cov, D = p["demand_gamma_mean"], p["demand_gamma_cov"], p["max_demand"]
    shape = 1.0 / cov ** 2
    scale = mean * cov ** 2
    edges = np.concatenate([[0.0], np.arange(0.5, D + 1.5)])
    cdf = gamma.cdf(edges, a=shape, scale=scale)
    pm = np.diff(cdf)
    pm[-1] += 1.0 - cdf[-1]                       # censored tail folded into the largest demand
    return pm


def negbin_pmf(k, n, delta):
    """failures before n successes, success probability n/(n+delta) (mean delta)."""
    pr = n / (n + delta)
    return math.exp(math.lgamma(k + n) - math.lgamma(k + 1) - math.lgamma(n)
                    + n * math.log(pr) + k * math.log1p(-pr))


def mirjalili_demand_pmf(p, weekday):
    D = p["max_demand"]
    n, delta = p["weekday_demand_negbin_n"][weekday], p["weekday_demand_negbin_delta"][weekday]
    pm = np.array([negbin_pmf(k, n, delta) for k in range(D + 1)])
    pm[-1] += 1.0 - pm.sum()
    return pm


def mirjalili_received_prob(p, order, rec):
    """rec is ordered freshest first: rec[0] has useful life m, rec[-1] useful life 1."""
    m = p["max_useful_life"]
    if sum(rec) != order:
        return 0.0
    c0, c1 = p["useful_life_at_arrival_distribution_c_0"], p["useful_life_at_arrival_distribution_c_1"]
    logits = [0.0] + [c0[i] + c1[i] * order for i in range(m - 1)]          # useful life 1, 2, ..., m
    mx = max(logits)
    w = [math.exp(x - mx) for x in logits]
    probs = [x / sum(w) for x in w]
    lp = math.lgamma(order + 1)
    for life in range(1, m + 1):
        k = rec[m - life]
        lp -= math.lgamma(k + 1)
        if k:
            if probs[life - 1] == 0.0:
                return 0.0
            lp += k * math.log(probs[life - 1])
    return math.exp(lp)


def poisson_pmf_vec(lam, n):
    k = np.arange(n + 1)
    return np.exp(k * math.log(lam) - lam - np.array([math.lgamma(x + 1) for x in k]))


def binom_pmf(u, x, q):
    if q == 0.0:
        return 1.0 if u == 0 else 0.0
    if q == 1.0:
        return 1.0 if u == x else 0.0
    return math.exp(math.lgamma(x + 1) - math.lgamma(u + 1) - math.lgamma(x - u + 1)
                    + u * math.log(q) + (x - u) * math.log1p(-q))


def hendrix_exact_joint(p, sa, sb):
    """P(units of A issued, units of B issued | stock sa, sb) with *untruncated* Poisson demands."""
    la, lb, q = p["demand_poisson_mean_a"], p["demand_poisson_mean_b"], p["substitution_probability"]
    N = int(max(la, lb) + 12 * math.sqrt(max(la, lb)) + 40)
    pa, pb = poisson_pmf_vec(la, N), poisson_pmf_vec(lb, N)
    out = np.zeros((sa + 1, sb + 1))
    for db in range(N + 1):
        ib = min(db, sb)
        x = max(db - sb, 0)
        for u in range(x + 1):
            w = binom_pmf(u, x, q)
            if w == 0.0:
                continue
            ia = np.minimum(np.arange(N + 1) + u, sa)
            np.add.at(out[:, ib], ia, pa * (pb[db] * w))
    return out


def hendrix_max_demand(p):
    return p["max_useful_life"] * (max(p["max_order_quantity_a"], p["max_order_quantity_b"]) + 2)


def hendrix_truncated_mass(p, sa, sb):
    """Mass lost by the documented truncation of demand at max_demand = m*(max Q + 2):
    P(D_B >= md) + P(sb <= D_B < md, D_A + U > md)."""
    la, lb, q = p["demand_poisson_mean_a"], p["demand_poisson_mean_b"], p["substitution_probability"]
    md = hendrix_max_demand(p)
    N = int(max(la, lb) + 12 * math.sqrt(max(la, lb)) + 40) + md
    pa, pb = poisson_pmf_vec(la, N), poisson_pmf_vec(lb, N)
    ta = np.concatenate([np.cumsum(pa[::-1])[::-1], [0.0]])   # ta[k] = P(D_A >= k) (within N)
    lost = float(pb[md:].sum())
    for db in range(sb, md):
        x = db - sb
        for u in range(x + 1):
            w = binom_pmf(u, x, q)
            if w:
                lost += pb[db] * w * float(ta[max(md - u + 1, 0)])
    return lost
