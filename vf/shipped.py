"""Reduced-size parameterisations of the four shipped problems (pure data + a factory).

The parameter dicts are plain JSON; ``make(name, params)`` (worker side) builds the real
mdpax problem through its public constructor.
"""

SMALL = [
    ("forest", dict(S=5, r1=4.0, r2=2.0, p=0.1)),
    ("forest", dict(S=10, r1=7.0, r2=3.0, p=0.3)),
    ("de_moor", dict(max_order_quantity=3, max_demand=8)),
    ("de_moor", dict(max_order_quantity=2, max_demand=5, max_useful_life=3, lead_time=2,
                     issue_policy="fifo")),
    ("hendrix", dict(max_useful_life=1, max_order_quantity_a=4, max_order_quantity_b=3)),
    ("hendrix", dict(max_useful_life=2, max_order_quantity_a=2, max_order_quantity_b=2,
                     sales_price_a=1.5, variable_order_cost_b=0.25)),
    ("mirjalili", dict(max_useful_life=2, max_order_quantity=3, max_demand=4,
                       useful_life_at_arrival_distribution_c_0=[1.0],
                       useful_life_at_arrival_distribution_c_1=[0.3])),
    ("mirjalili", dict(max_useful_life=3, max_order_quantity=2, max_demand=3,
                       useful_life_at_arrival_distribution_c_0=[1.0, 0.5],
                       useful_life_at_arrival_distribution_c_1=[0.0, -0.2])),
]


def make(name, params):
    from mdpax.problems import (
        DeMoorSingleProductPerishable,
        Forest,
        HendrixTwoProductPerishable,
        MirjaliliPlateletPerishable,
    )

    cls = {"forest": Forest, "de_moor": DeMoorSingleProductPerishable,
           "hendrix": HendrixTwoProductPerishable, "mirjalili": MirjaliliPlateletPerishable}[name]
    kw = {k: (tuple(v) if isinstance(v, list) else v) for k, v in params.items()}
    return cls(**kw)
