"""Fresh-process legs for the checkpoint properties: ``python -m vf.legs '<json>'``.

modes
  ref       uninterrupted run without checkpointing: solve(cap); also a stepped twin that records the
            state signature after every iteration (trajectory)
  first     checkpointing on: solve(k), wait for pending writes, exit
  resume    restore(dir) [or hand-built solver + load_checkpoint], solve(n), wait, exit
Prints one line ``RESULT <json>``.
"""

import json
import os
import sys


def main():
    a = json.loads(sys.argv[1])
    if a.get("x64first", True):
        os.environ.pop("VF_NO_X64", None)
    else:
        os.environ["VF_NO_X64"] = "1"
    from vf import target  # noqa: F401  (x64 first unless told otherwise; asserts the working tree)
    import jax
    import numpy as np

    from vf import ckpt, common

    sv = a["solver"]
    cls = target.SOLVERS[sv]
    out = dict(x64_at_problem=bool(jax.config.jax_enable_x64))
    kw = dict(ckpt.SOLVER_KW[sv])
    kw.update(a.get("kw", {}))
    kw.setdefault("verbose", 0)

    def problem():
        return common.build_problem(a["problem"])[0]

    def sig(s, res=None):
        st = s.solver_state if res is None else res
        d = ckpt.state_sig(sv, st)
        d["policy"] = ckpt.h(st.policy)
        d["dtype"] = str(np.asarray(st.values).dtype)
        return d

    if a["mode"] == "ref":
        s = cls(problem(), **kw)
        res = s.solve(a["cap"])
        out["final"] = sig(s, res)
        if a.get("values"):
            out["values"] = np.asarray(res.values, dtype=float).reshape(-1).tolist()
            out["policy_rows"] = np.asarray(res.policy).tolist()
        if a.get("trajectory"):
            t = cls(problem(), **kw)
            traj = {}
            for i in range(int(res.info.iteration)):
                r = t.solve(1)
                g = ckpt.state_sig(sv, r)
                traj[int(r.info.iteration)] = g
            out["trajectory"] = traj
    elif a["mode"] == "first":
        if a.get("reuse_config"):
            # a parameter sweep that reuses ONE solver configuration object: an earlier solver of the sweep wrote
            # its (other) problem into it; this run passes that object together with its own problem instance
            from vf import shipped

            other = dict(a["problem"]["params"])
            other.update(a["reuse_config"])
            cfg = cls.Config(checkpoint_dir=a["dir"] + "_sweep_neighbour", **kw)
            cls(shipped.make(a["problem"]["name"], other), config=cfg)
            cfg.checkpoint_dir = a["dir"]
            s = cls(problem(), config=cfg)
        else:
            s = cls(problem(), checkpoint_dir=a["dir"], **kw)
        res = s.solve(a["k"])
        ckpt.wait(s)
        out["at_k"] = ckpt.state_sig(sv, res)
        out["listing"] = ckpt.listing(a["dir"])
    elif a["mode"] == "resume":
        if a.get("route", "restore") == "restore":
            s = cls.restore(a["dir"], **a.get("restore_kw", {}))
        else:
            s = cls(problem(), checkpoint_dir=a.get("new_dir") or a["dir"], **kw)
            s.load_checkpoint(a["dir"])
        out["restored"] = ckpt.state_sig(sv, s.solver_state)
        out["restored_dtype"] = str(np.asarray(s.values).dtype)
        n = a["n"] if a.get("n") is not None else a["cap"] - int(s.iteration)
        if a.get("final_iteration") is not None and int(s.iteration) >= a["final_iteration"]:
            n = 0     # the checkpointed run had already finished: nothing to continue
        if n > 0:
            res = s.solve(n)
            ckpt.wait(s)
            out["final"] = sig(s, res)
            if a.get("values"):
                out["values"] = np.asarray(res.values, dtype=float).reshape(-1).tolist()
                out["policy_rows"] = np.asarray(res.policy).tolist()
        else:
            out["final"] = None
    print("RESULT " + json.dumps(out))


if __name__ == "__main__":
    main()
