"""Worker-side access to the code under test (the real mdpax from /repo's working tree).

Importing this module
  * enables JAX 64-bit mode *before* any problem is built (DESIGN 3.4) unless
    VF_NO_X64=1 (used only by the construction-order cases of C20/C09),
  * imports mdpax and asserts it really is the working tree,
  * offers ``call()`` to run code under test so that an exception raised *by mdpax* is
    distinguishable from a harness bug.
"""

import os
import sys

if os.environ.get("MDPAX_SRC"):
    sys.path.insert(0, os.environ["MDPAX_SRC"])

import jax  # noqa: E402

if os.environ.get("VF_NO_X64") != "1":
    jax.config.update("jax_enable_x64", True)

import numpy as np  # noqa: E402
import mdpax  # noqa: E402

_expected = os.environ.get("MDPAX_SRC") or os.path.join(os.environ.get("MDPAX_REPO", "/repo"), "src")
assert os.path.realpath(mdpax.__file__).startswith(os.path.realpath(_expected) + os.sep), (
    f"mdpax imported from {mdpax.__file__}, expected under {_expected}")

from mdpax.solvers import (  # noqa: E402
    PeriodicValueIteration,
    PolicyIteration,
    RelativeValueIteration,
    SemiAsyncValueIteration,
    ValueIteration,
)

# runtime contracts on the real BatchProcessor ride along in every worker (DESIGN 4.4): a broken
# invariant / postcondition surfaces as ContractBroken out of an mdpax call => violation
try:
    if os.environ.get("VF_NO_CONTRACTS") != "1":
        from vf import contracts as _contracts

        _contracts.apply()
except ImportError:  # icontract not installed (e.g. a bare interpreter): the dedicated check C18 reports that
    _contracts = None

SOLVERS = {
    "vi": ValueIteration,
    "pi": PolicyIteration,
    "rvi": RelativeValueIteration,
    "per": PeriodicValueIteration,
    "sa": SemiAsyncValueIteration,
}


class TargetError(Exception):
    """An exception that came out of a call into mdpax."""

    def __init__(self, exc: BaseException, where: str):
        self.exc = exc
        self.kind = type(exc).__name__
        self.msg = str(exc)
        self.where = where
        super().__init__(f"{self.kind}: {self.msg[:300]} (during {where})")


def call(where, fn, *a, **kw):
    """Run ``fn`` (code under test). Exceptions are re-raised as TargetError."""
    try:
        return fn(*a, **kw)
    except TargetError:
        raise
    except Exception as e:  # noqa: BLE001
        raise TargetError(e, where) from e


def make_solver(name, problem, **kw):
    kw.setdefault("verbose", 0)
    return call(f"construct {name} {sorted(kw.items())}", SOLVERS[name], problem, **kw)


def solve(solver, n):
    return call(f"solve({n})", solver.solve, n)


def np_values(x):
    return np.asarray(x, dtype=np.float64).reshape(-1)


def policy_indices(policy, action_space):
    """Map returned action vectors to row numbers of the action space (-1 if not a row)."""
    pol = np.asarray(policy)
    asp = np.asarray(action_space)
    if pol.ndim == 1:
        pol = pol.reshape(-1, 1)
    out = np.full(len(pol), -1, dtype=int)
    for j, row in enumerate(asp):
        out[(pol == row).all(axis=1) & (out < 0)] = j
    return out


def problem_tables(problem):
    """Complete (state, action, event) tables of a Problem through its public functions."""
    import jax.numpy as jnp
    from jax import vmap

    S, A, E = problem.n_states, problem.n_actions, problem.n_random_events
    ss, aa, ee = problem.state_space, problem.action_space, problem.random_event_space
    f_tr = vmap(vmap(vmap(problem.transition, (None, None, 0)), (None, 0, None)), (0, None, None))
    f_pr = vmap(vmap(vmap(problem.random_event_probability, (None, None, 0)), (None, 0, None)), (0, None, None))
    ns, rw = call("transition table", f_tr, ss, aa, ee)
    pr = call("probability table", f_pr, ss, aa, ee)
    idx = call("state_to_index table", vmap(problem.state_to_index), jnp.reshape(ns, (-1, ns.shape[-1])))
    return dict(
        next_states=np.asarray(ns),
        nxt=np.asarray(idx).reshape(S, A, E).astype(np.int64),
        rew=np.asarray(rw, dtype=np.float64).reshape(S, A, E),
        prob=np.asarray(pr, dtype=np.float64).reshape(S, A, E),
    )
