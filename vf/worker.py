"""Worker entry point: ``python -m vf.worker <PROP> <cases.json> <out.jsonl>``.

One fresh process per shard.  Imports the property module, calls ``run_case(case)`` for
each case and appends exactly one JSON line per case with a single ``os.write`` (so a killed
worker leaves only whole lines).
"""

import json
import os
import sys
import time
import traceback


def main():
    prop, fin, fout = sys.argv[1], sys.argv[2], sys.argv[3]
    # /verif/.deps (icontract, deal) must come *after* /venv's own packages
    deps = os.path.join(os.path.dirname(os.path.dirname(os.path.abspath(__file__))), ".deps")
    if os.path.isdir(deps) and deps not in sys.path:
        sys.path.append(deps)
    from vf import target  # noqa: F401  (sets up jax, silences logging, checks mdpax path)
    import importlib

    mod = importlib.import_module(f"vf.props.{prop.lower()}")
    cases = json.load(open(fin))
    fd = os.open(fout, os.O_WRONLY | os.O_CREAT | os.O_APPEND)
    def run(case):
        try:
            return mod.run_case(case)
        except target.TargetError as e:
            # the code under test raised where the property says it must produce a result
            handler = getattr(mod, "on_target_error", None)
            rec = handler(case, e) if handler else None
            if rec is None:
                rec = {"status": "violation", "kind": "target-exception",
                       "detail": f"mdpax raised {e.kind}: {e.msg[:500]} (during {e.where})"}
            return rec
        except Exception:
            return {"status": "error", "detail": traceback.format_exc()[-1500:]}

    every = int(getattr(mod, "SIBLING_EVERY", 0))
    for case in cases:
        t0 = time.time()
        if os.environ.get("VF_SELFTEST_CRASH") == str(case["case_id"]) and not os.getcwd().endswith("retry"):
            os.abort()      # self-test of the crashed-shard retry in vf/core.py (never set by a registered command)
        rec = run(case)
        if (every and case["case_id"] % every == 0 and rec.get("status") == "ok"
                and case.get("kind", "gen") == "gen" and "spec" in case):
            # a second problem + solver of the SAME shapes and problem name but other contents, built in the same
            # process straight after the first: state shared between instances (caches keyed by shape or name) shows here
            from vf import common

            rec2 = run(common.sibling_case(case))
            if rec2.get("status") in ("violation", "error"):
                if "detail" in rec2:
                    rec2["detail"] = "[second problem/solver of the same shapes built in this process] " + str(rec2["detail"])
                rec = rec2
            else:
                rec["sibling"] = rec2.get("status")
                if rec2.get("status") == "ok" and isinstance(rec.get("n_obs"), int) and isinstance(rec2.get("n_obs"), int):
                    rec["n_obs"] += rec2["n_obs"]
        rec["case_id"] = case["case_id"]
        rec["t"] = round(time.time() - t0, 3)
        os.write(fd, (json.dumps(rec, default=_default) + "\n").encode())
    os.close(fd)


def _default(o):
    import numpy as np

    if isinstance(o, (np.integer,)):
        return int(o)
    if isinstance(o, (np.floating,)):
        return float(o)
    if isinstance(o, np.bool_):
        return bool(o)
    if isinstance(o, np.ndarray):
        return o.tolist()
    return str(o)


if __name__ == "__main__":
    main()
