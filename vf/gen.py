"""Hostile MDP generators (DESIGN 4.1) - pure numpy, usable by parent and workers.

A *spec* is a small JSON dict; ``build(spec)`` deterministically expands it into tables and
the interface layout that ``vf.tabular.TabularProblem`` presents to the solvers.
"""

import itertools

import numpy as np

STRUCTURES = ["dense", "sparse", "determ", "samesucc", "absorbing", "unreach", "dupaction", "ties", "dag"]


def _factor_box(rng, n, ndim):
    """Random factorisation of n into ndim integer factors (ones allowed)."""
    dims = [1] * ndim
    rest = n
    f = 2
    primes = []
    while f * f <= rest:
        while rest % f == 0:
            primes.append(f)
            rest //= f
        f += 1
    if rest > 1:
        primes.append(rest)
    for p in primes:
        dims[int(rng.integers(0, ndim))] *= p
    return [int(d) for d in dims]


INIT_DTYPES = ["float64"] * 7 + ["int32"] * 2 + ["float32"]


def random_spec(rng, *, S=None, avg=None, smin=3, smax=40, amax=5, emax=5, gamma_choices=None):
    S = int(S if S is not None else rng.integers(smin, smax + 1))
    A = int(rng.integers(2, amax + 1)) if rng.random() > 0.06 else 1   # now and then a single action
    structure = str(rng.choice(STRUCTURES))
    E = 1 if structure == "determ" else int(rng.integers(2, emax + 1))
    sdim = int(rng.integers(1, 4))
    adim = int(rng.integers(1, 3))
    edim = int(rng.integers(1, 4))
    spec = dict(
        gseed=int(rng.integers(0, 2**31 - 1)),
        S=S, A=A, E=E, structure=structure,
        scale=float(10.0 ** rng.integers(-3, 7)),
        sdim=sdim, adim=adim, edim=edim,
        origin=int(rng.choice([0, 0, 1, 2, -1])),
        order=str(rng.choice(["rowmajor", "rowmajor", "perm"])),
        prob1=bool(rng.integers(0, 2)),
        init=str(rng.choice(["none", "none", "const", "random", "far"])),
        ipol=str(rng.choice(["none", "none", "random", "worst"])),
        avg=avg,
        intrew=bool(rng.random() < 0.12),      # rewards returned with an integer dtype
    )
    if spec["intrew"] and spec["scale"] < 1.0:
        spec["scale"] = 10.0
    if avg in ("unichain", "periodic"):
        spec["delta"] = float(rng.choice([0.3, 0.05, 0.01]))
        spec["scale"] = float(10.0 ** rng.integers(-1, 3))
        if spec["E"] < 2:
            spec["E"] = 2
            if structure == "determ":
                spec["structure"] = "dense"
    if avg == "periodic":
        spec["chain_period"] = int(rng.choice([2, 3, 4]))
        per_class = int(rng.integers(1, 6))
        spec["S"] = spec["chain_period"] * per_class
    return spec


def build(spec):
    """Expand a spec into tables + layout.  Deterministic in the spec."""
    r = np.random.default_rng([spec["gseed"], 7])
    S, A, E = spec["S"], spec["A"], spec["E"]
    st = spec["structure"]
    scale = spec["scale"]
    nxt = r.integers(0, S, size=(S, A, E))
    conc = float(r.choice([0.2, 1.0, 5.0]))
    prob = r.dirichlet(np.ones(E) * conc, size=(S, A))
    rew = r.normal(size=(S, A, E)) * scale
    if r.random() < 0.3:
        rew = np.abs(rew)  # one-signed rewards
    if r.random() < 0.2:
        rew = np.round(rew / scale * 2) * scale / 2  # coarse rewards -> many ties
    if st == "sparse":
        k = int(r.integers(1, 3))
        succ = r.integers(0, S, size=(S, A, k))
        nxt = np.take_along_axis(succ, r.integers(0, k, size=(S, A, E)), axis=2)
    elif st == "samesucc":
        nxt[:, :, :] = nxt[:, :, :1]
    elif st == "absorbing":
        nxt[0, :, :] = 0
    elif st == "unreach" and S > 1:
        nxt[nxt == S - 1] = 0
    elif st == "dupaction" and A > 1:
        nxt[:, 1] = nxt[:, 0]
        rew[:, 1] = rew[:, 0]
        prob[:, 1] = prob[:, 0]
    elif st == "dag":
        # finite horizon: every transition goes to a strictly higher state, the last state is an absorbing
        # zero-reward sink => value iteration is exact after S sweeps for ANY discount factor (also 1-1e-9)
        for s_ in range(S):
            lo = min(s_ + 1, S - 1)
            nxt[s_] = r.integers(lo, S, size=(A, E))
        rew[S - 1] = 0.0
    elif st == "ties" and A > 1:
        # action 1 = action 0 with the events permuted: equal Q by construction
        perm = r.permutation(E)
        nxt[:, 1] = nxt[:, 0][:, perm]
        rew[:, 1] = rew[:, 0][:, perm]
        prob[:, 1] = prob[:, 0][:, perm]

    avg = spec.get("avg")
    if avg == "unichain":
        # every (s,a) reaches state 0 with probability delta through event 0; state 0 then
        # has a self loop => one recurrent class containing 0, aperiodic.
        d = spec["delta"]
        nxt[:, :, 0] = 0
        rest = prob[:, :, 1:]
        rest = rest / rest.sum(-1, keepdims=True)
        prob = np.concatenate([np.full((S, A, 1), d), rest * (1 - d)], axis=2)
        rew = rew + 2.0 * scale  # |g*| comfortably away from 0
    elif avg == "periodic":
        p = spec["chain_period"]
        cls = np.arange(S) % p
        for s in range(S):
            tgt = np.array([t for t in range(S) if cls[t] == (cls[s] + 1) % p])
            nxt[s] = r.choice(tgt, size=(A, E))
            nxt[s, :, 0] = tgt[0]
        rest = prob[:, :, 1:]
        rest = rest / rest.sum(-1, keepdims=True)
        prob = np.concatenate([np.full((S, A, 1), 0.2), rest * 0.8], axis=2)
        rew = rew + 1.0 * scale

    if spec.get("dyadic"):
        # exact-arithmetic class: dyadic probabilities, small integer rewards (with a dyadic discount factor every
        # iterate and every convergence measure is computed without any rounding, in any summation order)
        pat = {1: [1.0], 2: [0.5, 0.5], 4: [0.25, 0.25, 0.25, 0.25]}[E]
        if E == 4 and r.random() < 0.5:
            pat = [0.5, 0.25, 0.125, 0.125]
        prob = np.broadcast_to(np.array(pat), (S, A, E)).copy()
        rew = r.integers(-8, 9, size=(S, A, E)).astype(float)
    prob = prob / prob.sum(-1, keepdims=True)
    if spec.get("intrew"):
        rew = np.round(rew)                     # integer-valued; the Problem hands them out as int32

    # ---- interface layout
    sbox = _factor_box(r, S, spec["sdim"])
    abox = _factor_box(r, A, spec["adim"])
    ebox = _factor_box(r, E, spec["edim"])
    so = [int(spec["origin"]) if b > 1 or spec["origin"] >= 0 else 0 for b in sbox]
    # listing order of the state rows: row-major, or a permutation of it (lookup index)
    if spec["order"] == "perm":
        sperm = r.permutation(S)
    else:
        sperm = np.arange(S)

    init = None
    if spec["init"] == "const":
        init = np.full(S, float(r.normal() * scale * 3))
    elif spec["init"] == "random":
        init = r.normal(size=S) * scale
    elif spec["init"] == "far":
        init = r.normal(size=S) * scale * 1e3 + 50 * scale
    # dtype the problem's initial_value returns: mostly float64, now and then integers ("price * stock", "return 0")
    # or float32 - the documented return type is a float, and Python numbers of either kind are what users write
    init_dtype = INIT_DTYPES[(int(spec.get("gseed", 0)) // 7) % len(INIT_DTYPES)]
    if init is None:
        pass                      # init_dtype int32 then means a literal integer zero ("return 0")
    elif init_dtype == "int32":
        init = np.round(init) if np.abs(init).max() >= 2 else np.round(init / scale * 3)
        init = np.clip(init, -2e9, 2e9)
    elif init_dtype == "float32":
        init = init.astype(np.float32).astype(float)
    ipol = None
    if spec["ipol"] == "random":
        ipol = r.integers(0, A, size=S)
    elif spec["ipol"] == "worst":
        ipol = (rew * prob).sum(-1).argmin(1)
    return dict(nxt=nxt.astype(np.int64), rew=rew.astype(float), prob=prob.astype(float), intrew=bool(spec.get("intrew")),
                sbox=sbox, abox=abox, ebox=ebox, sorigin=so, sperm=sperm,
                init=init, ipol=ipol, init_dtype=init_dtype)


def box_rows(box, origin):
    return np.array(list(itertools.product(*[range(o, o + b) for b, o in zip(box, origin)])),
                    dtype=np.int32).reshape(-1, len(box))


def zero_vector_class(t):
    """Is the all-zero padding vector a listed state, and where in the order?"""
    rows = box_rows(t["sbox"], t["sorigin"])[t["sperm"]]
    hit = np.where((rows == 0).all(1))[0]
    if len(hit) == 0:
        return "zero-not-a-state"
    i = int(hit[0])
    return "zero-first" if i == 0 else ("zero-last" if i == len(rows) - 1 else "zero-middle")


def interface_class(spec, t):
    return (f"s{spec['sdim']}a{spec['adim']}e{spec['edim']}",
            spec["order"], ("p1" if spec["prob1"] else "p0") + ("+intrew" if spec.get("intrew") else "")
            + {"int32": "+intinit", "float32": "+f32init"}.get(t.get("init_dtype"), ""), zero_vector_class(t))


def gamma_bucket(g):
    return "g<.5" if g < 0.5 else ("g<.95" if g < 0.95 else "g>=.95")


def eps_bucket(rel):
    return "eps<1e-4" if rel < 1e-4 else ("eps<1" if rel < 1 else "eps>=1")
