"""Independent numpy reference for finite MDPs (DESIGN 4.2).  No jax, no mdpax.

Conventions: ``nxt[s,a,e]`` successor row index, ``rew[s,a,e]``, ``prob[s,a,e]``;
``P[s,a,s']``, ``R[s,a]``.  Everything float64.
"""

import numpy as np


def tables(nxt, rew, prob):
    S, A, E = nxt.shape
    P = np.zeros((S, A, S))
    si = np.repeat(np.arange(S), A * E)
    ai = np.tile(np.repeat(np.arange(A), E), S)
    np.add.at(P, (si, ai, nxt.reshape(-1)), prob.reshape(-1).astype(float))
    R = (rew.astype(float) * prob.astype(float)).sum(-1)
    return P, R


def q(P, R, g, v):
    return R + g * (P @ v)


def bellman(P, R, g, v):
    return q(P, R, g, v).max(1)


def evalpi(P, R, pi, g):
    S = len(pi)
    idx = np.arange(S)
    return np.linalg.solve(np.eye(S) - g * P[idx, pi], R[idx, pi])


def vstar(P, R, g, tol=1e-12):
    """Optimal discounted value by Howard policy iteration with exact linear solves."""
    S = P.shape[0]
    pi = np.zeros(S, int)
    for _ in range(10000):
        v = evalpi(P, R, pi, g)
        qq = q(P, R, g, v)
        keep = qq[np.arange(S), pi] >= qq.max(1) - tol * np.abs(qq).max()      # relative: any reward scale
        new = np.where(keep, pi, qq.argmax(1))
        if (new == pi).all():
            res = np.abs(bellman(P, R, g, v) - v).max()
            return v, pi, res
        pi = new
    raise RuntimeError("policy iteration did not terminate")


def policy_measure(P, R, g, v, pi, test):
    """Convergence measure of one evaluation step L_pi v - v."""
    S = len(pi)
    idx = np.arange(S)
    d = R[idx, pi] + g * (P[idx, pi] @ v) - v
    return (d.max() - d.min()) if test == "span" else np.abs(d).max()


# ------------------------------------------------------------------ average reward
def avg_eval(P, R, pi):
    """Gain and bias (h[0]=0) of a unichain stationary policy."""
    S = len(pi)
    idx = np.arange(S)
    Pp, Rp = P[idx, pi], R[idx, pi]
    A = np.zeros((S + 1, S + 1))
    A[:S, :S] = np.eye(S) - Pp
    A[:S, S] = 1.0
    A[S, 0] = 1.0
    x = np.linalg.solve(A, np.append(Rp, 0.0))
    return x[S], x[:S]


def avg_pi(P, R, tol=1e-11):
    S = P.shape[0]
    pi = np.zeros(S, int)
    for _ in range(5000):
        g, h = avg_eval(P, R, pi)
        qq = R + P @ h
        keep = qq[np.arange(S), pi] >= qq.max(1) - tol * (np.abs(qq).max() + 1e-300)
        new = np.where(keep, pi, qq.argmax(1))
        if (new == pi).all():
            return g, h, pi
        pi = new
    raise RuntimeError("average-reward policy iteration did not terminate")


def lp_gain(P, R):
    """Optimal gain of a unichain MDP from the primal LP (independent of avg_pi)."""
    from scipy.optimize import linprog

    S, A, _ = P.shape
    # variables: g, h[0..S-1];  g + h(s) - sum_s' P h(s') >= r(s,a)
    M = np.zeros((S * A, S + 1))
    b = np.zeros(S * A)
    k = 0
    for s in range(S):
        for a in range(A):
            M[k, 0] = -1.0
            M[k, 1:] = P[s, a]
            M[k, 1 + s] -= 1.0
            b[k] = -R[s, a]
            k += 1
    c = np.zeros(S + 1)
    c[0] = 1.0
    bounds = [(None, None)] * (S + 1)
    Aeq = np.zeros((1, S + 1))
    Aeq[0, 1] = 1.0
    res = linprog(c, A_ub=M, b_ub=b, A_eq=Aeq, b_eq=[0.0], bounds=bounds, method="highs")
    if res.status != 0:
        return None
    return float(res.x[0])


# ------------------------------------------------------------------ block Gauss-Seidel
def gs_sweep(P, R, g, v, order, shape, S):
    """One semi-asynchronous sweep: per device the batches in order, each batch computed
    from the carried vector, carried vector updated after the batch; no sharing across
    devices; ``order`` lists the state processed in each slot, padding after it."""
    D, B, bs = shape
    slots = list(order) + [None] * (D * B * bs - S)
    new = np.full(S, np.nan)
    for d in range(D):
        carry = np.array(v, dtype=float)
        for b in range(B):
            batch = slots[(d * B + b) * bs:(d * B + b + 1) * bs]
            real = [s for s in batch if s is not None]
            if not real:
                continue
            vals = (R[real] + g * (P[real] @ carry)).max(1)
            new[real] = vals
            carry[real] = vals
    return new


# ------------------------------------------------------------------ periodic VI stop measure
def span(x):
    return float(np.max(x) - np.min(x))


def periodic_measure(iterates, n, period, g):
    """Documented measure at sweep n (iterates[j] = V_j, j = 0..n), n >= period."""
    if g == 1.0:
        return span(iterates[n] - iterates[n - period])
    acc = np.zeros_like(iterates[n])
    for j in range(n - period + 1, n + 1):
        acc = acc + (iterates[j] - iterates[j - 1]) / (g ** (j - 1))
    return span(acc)
