"""C11 - a crash at any moment leaves a restorable, untorn, correctly labelled checkpoint.

Monitor shape: fault enumeration with an audit-hook failpoint injector.  A dry run of each
workload records every file-system-visible event of a checkpointed solve (solver thread,
Orbax writer and deleter threads); the run is then repeated once per event and SIGKILLed on
entry to that event (and right after renames / final rmdirs, at random wall-clock offsets, with
writer-thread delays, and in crash-restore-crash chains).  After each kill a fresh process calls
restore() on the directory and continues; an offline checker over the append-only event log
decides (i) restorable unless nothing was committed, (ii) restored state == the state logged at
the save() call of the step it claims, (iii) not older than the newest step observed committed
before the kill, (iv) continuation reaches the uninterrupted final state.
"""

import json
import os
import shutil
import signal
import subprocess
import sys
import time

import numpy as np

from vf import core

LEVEL = "fault_enumeration"
TECHNIQUE = "audit-hook failpoint injection (SIGKILL at every file-system event of the run, after renames/rmdirs, at wall-clock offsets, with writer-thread delays, crash chains) + offline checker over the recorded event log and a fresh-process restore"
RULE = ("workloads = {value iteration, periodic VI (in-place numpy history), policy iteration} x async/sync x frequency/retention "
        "on a reduced De Moor instance (14 sweeps). kill cases: thorough = before EVERY file-system event of every workload (complete "
        "for that workload), after every rename and rmdir, 160 wall-clock kills, delays {0,5,50 ms} in background threads, chains of 2 "
        "kills; quick = every 6th event of two workloads + after-kills + 20 wall-clock kills + 2 chains. A case is deciding when the "
        "child really died by SIGKILL (or finished) and the restore process reported. distinct = distinct kill sites (thread role, "
        "event kind, path kind, before/after/wall-clock).")
ASSUMPTIONS = ["only file-system events visible to the CPython audit hook are enumerable; tensorstore's native writes are reached by "
               "wall-clock kills and bracketed by the adjacent visible events",
               "'completed before the kill' = COMMITTED lines of the log (sound lower bound)",
               "any exception from restore() counts as a clean failure when no step had been committed",
               "reference = checkpoint-free stepped run of the same workload in a fresh process"]
MIN_DECIDING = {"quick": 50, "thorough": 600}
SHARD_TIMEOUT = {"quick": 3000, "thorough": 14000}

PROBLEM = dict(kind="shipped", name="de_moor", params=dict(max_order_quantity=3, max_demand=8))
CAP = 14
WORKLOADS = {
    "vi-async-f2m2": dict(solver="vi", kw=dict(epsilon=1e-6, checkpoint_frequency=2, max_checkpoints=2, enable_async_checkpointing=True)),
    "per-async-f1m2": dict(solver="per", kw=dict(epsilon=1e-6, checkpoint_frequency=1, max_checkpoints=2, enable_async_checkpointing=True)),
    "vi-sync-f3m1": dict(solver="vi", kw=dict(epsilon=1e-6, checkpoint_frequency=3, max_checkpoints=1, enable_async_checkpointing=False)),
    "per-sync-f2m1": dict(solver="per", kw=dict(epsilon=1e-6, checkpoint_frequency=2, max_checkpoints=1, enable_async_checkpointing=False)),
    "pi-async-f1m2": dict(solver="pi", kw=dict(epsilon=1e-6, max_eval_iter=2, checkpoint_frequency=1, max_checkpoints=2, enable_async_checkpointing=True)),
    "vi-async-f1m1": dict(solver="vi", kw=dict(epsilon=1e-6, checkpoint_frequency=1, max_checkpoints=1, enable_async_checkpointing=True)),
    "rvi-sync-f2m2": dict(solver="rvi", kw=dict(epsilon=1e-6, checkpoint_frequency=2, max_checkpoints=2, enable_async_checkpointing=False)),
}


# ------------------------------------------------------------------ parent orchestration
def run(tier, seed, scratch, limit):
    rng = np.random.default_rng([seed, 11])
    names = list(WORKLOADS)
    dry = [dict(case_id=i, kind="dry", workload=w, devices=1) for i, w in enumerate(names)]
    recs = core.run_cases("C11", dry, scratch, 1200, len(dry))
    info = {}
    for r in recs:
        if r["status"] != "ok":
            r["status"] = "error" if r["status"] != "violation" else r["status"]
            return dry, recs, {}
        info[r["workload"]] = r
    cases = []
    cid = len(dry)

    def add(**kw):
        nonlocal cid
        w = kw["workload"]
        cases.append(dict(case_id=cid, devices=1, ref_final=info[w]["final"], traj=info[w]["traj"], **kw))
        cid += 1

    full = names if tier == "thorough" else names[:2]
    stride = 1 if tier == "thorough" else 6
    for w in full:
        N = info[w]["n_events"]
        off = int(rng.integers(0, stride))
        for n in range(1 + off, N + 1, stride):
            add(kind="kill", workload=w, kill_at=n)
        afters = [e[0] for e in info[w]["events"] if e[2] in ("os.rename", "os.rmdir", "shutil.rmtree")]
        if tier == "quick":
            afters = afters[:: max(1, len(afters) // 6)]
        for n in afters:
            add(kind="kill", workload=w, kill_after=n)
    # right after a checkpoint became visible (the rename onto <dir>/<step>): the first two and the last commit of
    # EVERY workload also in the quick tier - whatever the code still has to write after a commit is missing here
    if tier == "quick":
        import re

        for w in names:
            commits = [e[0] for e in info[w]["events"] if e[2] in ("os.rename", "os.replace") and re.fullmatch(r"/\d+", str(e[3] or ""))]
            have = {c.get("kill_after") for c in cases if c["workload"] == w}
            have_at = {c.get("kill_at") for c in cases if c["workload"] == w}
            for n in dict.fromkeys(commits[:2] + commits[-1:]):
                if n not in have:
                    add(kind="kill", workload=w, kill_after=n, after_commit=True)
                # ... and on entry to the very next file-system event of ANY thread (the commit is done by a writer
                # thread even in synchronous mode; what the solver thread writes next comes after it)
                if n + 1 <= info[w]["n_events"] and n + 1 not in have_at:
                    add(kind="kill", workload=w, kill_at=n + 1, after_commit=True)
    # the other workloads: a sample in the quick tier
    if tier == "quick":
        for w in names[2:]:
            N = info[w]["n_events"]
            for n in sorted({int(x) for x in rng.integers(1, N + 1, size=4)}):
                add(kind="kill", workload=w, kill_at=n)
    # writer-thread delays move the solver/writer interleaving
    for w in [n for n in names if "async" in n]:
        N = info[w]["n_events"]
        k = 4 if tier == "quick" else 40
        for n in sorted({int(x) for x in rng.integers(1, N + 1, size=k)}):
            add(kind="kill", workload=w, kill_at=n, delay={"*": float(rng.choice([0.005, 0.05]))})
    # wall-clock kills (reach native writes and compute phases)
    nwall = 20 if tier == "quick" else 160
    for i in range(nwall):
        w = names[int(rng.integers(0, len(names)))]
        t0, t1 = info[w]["t_solve"], info[w]["t_done"]
        add(kind="wall", workload=w, at=float(rng.uniform(t0 - 0.1, t1 + 0.05)), delay=({"*": 0.02} if i % 3 == 0 else None))
    # crash -> restore -> crash -> restore chains in the same directory
    nchain = 3 if tier == "quick" else 35
    for i in range(nchain):
        # (the last workload - relative value iteration - always gets a chain: its loop is a separate copy)
        w = names[-1] if i == 0 else names[int(rng.integers(0, len(names)))]
        N = info[w]["n_events"]
        add(kind="chain", workload=w, kill_at=int(rng.integers(N // 3, N + 1)), second_kill_at=int(rng.integers(2, 40)))
    if limit:
        cases = cases[:limit]
    recs2 = core.run_cases("C11", cases, scratch, SHARD_TIMEOUT[tier], 64 if tier == "quick" else 160)
    allcases = dry + [{k: v for k, v in c.items() if k not in ("traj",)} for c in cases]
    extra = dict(events_per_workload={w: info[w]["n_events"] for w in names},
                 event_kinds_per_workload={w: info[w]["kinds"] for w in names},
                 exhaustive_over_events_of=full if tier == "thorough" else [])
    return allcases, recs + recs2, extra


# ------------------------------------------------------------------ worker side
def _child(args, timeout=600, kill_wall=None):
    env = dict(os.environ)
    p = subprocess.Popen([sys.executable, "-m", "vf.crashchild", json.dumps(args)], env=env,
                         stdout=subprocess.DEVNULL, stderr=subprocess.PIPE)
    if kill_wall is not None:
        try:
            p.wait(timeout=kill_wall)
        except subprocess.TimeoutExpired:
            os.kill(p.pid, signal.SIGKILL)
    try:
        _, err = p.communicate(timeout=timeout)
    except subprocess.TimeoutExpired:
        p.kill()
        _, err = p.communicate()
        return "timeout", err.decode("utf8", "replace")[-500:]
    return p.returncode, err.decode("utf8", "replace")[-500:]


def _parse(logf):
    out = dict(ev=[], save_calls={}, save_rets=set(), committed=[], kill=None, done=None, solve=None, restored=None, t_solve=None)
    if not os.path.exists(logf):
        return out
    for line in open(logf, errors="replace").read().splitlines():
        p = line.split(" ")
        if p[0] == "EV" and len(p) >= 6:
            out["ev"].append((int(p[1]), p[2], p[3], p[4], p[5] if len(p) > 6 else "", float(p[-1])))
        elif p[0] == "SAVE_CALL":
            try:
                out["save_calls"].setdefault(int(p[1]), json.loads(" ".join(p[2:])))
            except Exception:  # noqa: BLE001  (torn last line of a killed child)
                pass
        elif p[0] == "SAVE_RET":
            out["save_rets"].add(int(p[1]))
        elif p[0] == "COMMITTED":
            out["committed"].append(int(p[1]))
        elif p[0] in ("KILL", "KILL_AFTER"):
            out["kill"] = (p[0], int(p[1]))
        elif p[0] == "DONE":
            try:
                out["done"] = json.loads(" ".join(p[1:-1])) if p[1] != "null" else "null"
            except Exception:  # noqa: BLE001
                pass
        elif p[0] == "SOLVE":
            out["solve"] = int(p[1])
            out["t_solve"] = float(p[-1])
        elif p[0] == "RESTORED":
            out["restored"] = int(p[1])
    return out


def _role(thread):
    t = thread.lower()
    if t.startswith("mainthread"):
        return "solver-thread"
    if "delet" in t or "remov" in t or "cleanup" in t:
        return "deleter-thread"
    return "writer-thread"


def _pathkind(p):
    if "tmp" in p:
        return "tmp-dir" if p.count("/") <= 1 else "tmp-file"
    if p.strip("/").split("/")[0].isdigit():
        return "step-dir" if p.count("/") <= 1 else "step-file"
    if "config.yaml" in p:
        return "config"
    return "other" if p not in ("/", "") else "root"


def run_case(case):
    from vf.props import c09

    w = WORKLOADS[case["workload"]]
    sv = w["solver"]
    base = os.path.abspath(f"c11_{case['case_id']}")
    shutil.rmtree(base, ignore_errors=True)
    os.makedirs(base)
    D = os.path.join(base, "ck")
    logf = os.path.join(base, "log")
    args = dict(dir=D, log=logf, solver=sv, kw=w["kw"], problem=PROBLEM, cap=CAP)
    try:
        if case["kind"] == "dry":
            rc, err = _child(args)
            L = _parse(logf)
            if rc != 0 or L["done"] in (None, "null"):
                return dict(status="error", detail=f"dry run of {case['workload']} failed rc={rc}: {err}")
            ref, e2 = c09.leg(dict(mode="ref", solver=sv, problem=PROBLEM,
                                   kw={k: v for k, v in w["kw"].items() if not k.startswith(("checkpoint", "max_checkpoints", "enable_async"))},
                                   cap=CAP, trajectory=True))
            if ref is None:
                return dict(status="error", detail=f"reference leg failed: {e2}")
            fin = dict(ref["final"])
            fin.pop("dtype", None)
            if L["done"] != fin:
                return dict(status="violation", kind="checkpointing-changes-results",
                            detail=f"{case['workload']}: final state with checkpointing differs from the checkpoint-free run")
            for k, sig in L["save_calls"].items():
                if sig != ref["trajectory"].get(str(k)):
                    return dict(status="violation", kind="save-mislabelled",
                                detail=f"{case['workload']}: save({k}) was called while the solver held a state that is not "
                                       f"iteration {k} of the checkpoint-free trajectory (held iteration {sig.get('iteration')})")
            kinds = {}
            for e in L["ev"]:
                kk = f"{_role(e[1])}:{e[2]}:{_pathkind(e[3])}"
                kinds[kk] = kinds.get(kk, 0) + 1
            t_done = [float(x.split(" ")[-1]) for x in open(logf).read().splitlines() if x.startswith("DONE")][0]
            return dict(status="ok", workload=case["workload"], n_events=len(L["ev"]), final=fin, traj=ref["trajectory"],
                        events=[(e[0], e[1], e[2], e[4]) for e in L["ev"]], kinds=kinds, t_solve=L["t_solve"], t_done=t_done,
                        cls=["dry", case["workload"]], n_obs=len(L["save_calls"]))
        a1 = dict(args)
        for k in ("kill_at", "kill_after", "delay"):
            if case.get(k) is not None:
                a1[k] = case[k]
        rc, err = _child(a1, kill_wall=case.get("at"))
        L = _parse(logf)
        site = _site(case, L)
        died = rc in (-9, -signal.SIGKILL)
        if not died and L["done"] in (None,):
            return dict(status="error", detail=f"child neither killed nor finished (rc={rc}): {err}")
        if case["kind"] != "chain":
            verdict = _judge(case, L, sv, D, base, w, c09)
            verdict.setdefault("cls", site)
            verdict["died"] = died
            return verdict
        # chain: kill the *resumed* run too, then restore again
        log2 = os.path.join(base, "log2")
        a2 = dict(args, log=log2, start="restore", kill_at=case["second_kill_at"],
                  final_iteration=int(case["ref_final"]["iteration"]))
        rc2, err2 = _child(a2)
        L2 = _parse(log2)
        # saves of both runs share the directory: merge what each logged
        merged = dict(L2)
        merged["save_calls"] = {**L["save_calls"], **L2["save_calls"]}
        merged["committed"] = L["committed"] + L2["committed"]
        v2 = _judge(case, merged, sv, D, base, w, c09)
        v2.setdefault("cls", ["chain"] + site[1:])
        v2["died"] = died and rc2 in (-9,)
        return v2
    finally:
        shutil.rmtree(base, ignore_errors=True)


def _site(case, L):
    if case["kind"] == "wall":
        phase = "before-solve" if L["solve"] is None else ("after-done" if L["done"] is not None else "mid-solve")
        return ["wall-clock", phase, "delay" if case.get("delay") else "nodelay"]
    n = case.get("kill_at") or case.get("kill_after")
    ev = [e for e in L["ev"] if e[0] == n]
    when = "before" if case.get("kill_at") else "after"
    if not ev:
        return [when, "event-not-reached"]
    e = ev[0]
    return [when, _role(e[1]), e[2], _pathkind(e[3]), "delay" if case.get("delay") else "nodelay"]


def _judge(case, L, sv, D, base, w, c09):
    committed = max(L["committed"]) if L["committed"] else None
    where = f"{case['workload']} {case['kind']} kill_at={case.get('kill_at')} kill_after={case.get('kill_after')} at={case.get('at')} delay={case.get('delay')}"
    # a restored step equal to the uninterrupted run's final iteration is a *finished* run (policy
    # iteration converges before the cap): it is compared directly, never continued (DESIGN C09 guards)
    res, err = c09.leg(dict(mode="resume", solver=sv, problem=PROBLEM, kw=w["kw"], dir=D, cap=CAP,
                            final_iteration=int(case["ref_final"]["iteration"])))
    if res is None:
        if committed is not None:
            return dict(status="violation", kind="not-restorable",
                        detail=f"{where}: step {committed} had been observed committed before the kill, yet restore() failed: {err[-300:]}")
        return dict(status="ok", outcome="clean-failure", n_obs=1)
    k = int(res["restored"]["iteration"])
    if k not in L["save_calls"]:
        return dict(status="violation", kind="unknown-step",
                    detail=f"{where}: restore() returned iteration {k} for which no save() was ever called (saves: {sorted(L['save_calls'])})")
    if res["restored"] != L["save_calls"][k]:
        d = [x for x in res["restored"] if res["restored"].get(x) != L["save_calls"][k].get(x)]
        return dict(status="violation", kind="torn-or-mislabelled",
                    detail=f"{where}: restored checkpoint claims iteration {k} but its {d} differ from what the solver held at save({k})")
    if res["restored"] != case["traj"].get(str(k)):
        return dict(status="violation", kind="mislabelled",
                    detail=f"{where}: restored state labelled {k} is not iteration {k} of the checkpoint-free trajectory")
    if committed is not None and k < committed:
        return dict(status="violation", kind="older-than-committed",
                    detail=f"{where}: restore() returned step {k} although step {committed} had been committed before the kill")
    if res["final"] is not None:
        fin = dict(res["final"])
        fin.pop("dtype", None)
        if fin != case["ref_final"]:
            d = [x for x in fin if fin.get(x) != case["ref_final"].get(x)]
            return dict(status="violation", kind="continuation-differs",
                        detail=f"{where}: continuing from restored step {k} ends differently from the uninterrupted run in {d}")
    else:
        ref = {x: v for x, v in case["ref_final"].items() if x != "policy" or sv == "pi"}
        if {x: res["restored"].get(x) for x in ref} != ref:
            return dict(status="violation", kind="continuation-differs",
                        detail=f"{where}: restored final step {k} differs from the uninterrupted final state")
    return dict(status="ok", outcome=f"restored", restored_step=k, newest_committed=committed, n_obs=1)


def aggregate(records, cases):
    ok = [r for r in records if r["status"] == "ok" and r.get("cls", [""])[0] != "dry"]
    sites = {}
    for r in ok:
        key = ":".join(str(x) for x in r["cls"])
        sites[key] = sites.get(key, 0) + 1
    return dict(kill_cases_judged=len(ok), children_killed=sum(1 for r in ok if r.get("died")),
                clean_failures=sum(1 for r in ok if r.get("outcome") == "clean-failure"),
                restored_exact=sum(1 for r in ok if r.get("outcome") == "restored"),
                distinct_kill_sites=len(sites), kill_sites=sites)


def coverage_check(records, cases, tier):
    a = aggregate(records, cases)
    if a["children_killed"] < (40 if tier == "quick" else 500):
        return f"only {a['children_killed']} children really died by SIGKILL"
    if a["distinct_kill_sites"] < 8:
        return f"only {a['distinct_kill_sites']} distinct kill sites"
    if a["restored_exact"] < (25 if tier == "quick" else 300):
        return f"only {a['restored_exact']} kills followed by an exact restore"
    return None
