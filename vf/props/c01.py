"""C01 - discounted solvers return near-optimal policies (and values) on convergence.

Monitor shape: reference model.  Each converged solve() of the real solver is judged
against exact linear algebra on the same tables: v* (Howard policy iteration with linear
solves) and v^pi of the *returned* policy; the a-priori bounds of the statement are asserted.
"""

import numpy as np

from vf import common, gen, refmdp, shipped

SIBLING_EVERY = 4      # every n-th case is followed by a same-shape sibling problem/solver in the same process (vf/worker.py)
LEVEL = "exploration"
RULE = ("cases = (generated tabular MDP | reduced shipped problem) x (vi/span, vi/max_diff, "
        "pi/span, pi/max_diff, semi-async/max_diff with and without shuffling, semi-async/span) x "
        "gamma in (0,1) x epsilon over 11 decades x max_batch_size x device count x initial "
        "value / initial policy overrides. Deciding = the solver stopped before its iteration cap "
        "(and, for policy iteration, the returned values pass the evaluation test for the returned "
        "policy) so the a-priori bound applies and was compared with exact v*, v^pi. distinct = "
        "distinct (structure, interface class, solver/test, gamma bucket, epsilon bucket, partition "
        "class); non-trivial = some state has actions with different optimal Q and the run took >=2 "
        "sweeps.")
ASSUMPTIONS = ["vf.refmdp exact linear algebra (numpy.linalg.solve) gives v* and v^pi",
               "bounds are those listed in the property statement, plus fp slack 1e-9*(1+scale)",
               "policy iteration's bounds are only implied when the returned values pass the "
               "evaluation test for the returned policy (DESIGN C01 guards)",
               "emulated CPU devices"]
MIN_DECIDING = {"quick": 300, "thorough": 3000}
SHARD_TIMEOUT = {"quick": 2400, "thorough": 12000}
TARGET_SHARDS = {"quick": 48, "thorough": 96}

COMBOS = [("vi", "span"), ("vi", "max_diff"), ("pi", "span"), ("pi", "max_diff"),
          ("sa", "max_diff"), ("sa", "max_diff"), ("sa", "span")]
AMPLE = 1_000_000


def gen_cases(seed, tier):
    rng = np.random.default_rng([seed, 1])
    nprob = 64 if tier == "quick" else 800
    max_sweeps = 1500 if tier == "quick" else 12000
    devs = [1, 1, 1, 2, 3] if tier == "quick" else [1, 1, 1, 2, 3, 4, 8]
    cases = []
    for i in range(nprob):
        spec = gen.random_spec(rng, smin=2, smax=40 if tier == "quick" else 60)
        if rng.random() < 0.15:
            spec["S"] = int(rng.choice([65, 70, 97, 129]))
        if rng.random() < 0.12:
            spec["structure"] = "dag"       # finite-horizon class (used below with gamma a hair below one)
            if spec["E"] < 2:
                spec["E"] = 2
        if rng.random() < 0.08 and not spec.get("intrew"):
            spec["scale"] = float(rng.choice([1e-12, 1e-9]))     # rewards in very small units (any scale is allowed)
        init_mag = {"none": 0, "const": 12, "random": 4, "far": 4100}[spec["init"]] * spec["scale"]
        g, eps, rel = common.draw_gamma_eps(rng, spec["scale"], init_mag, max_sweeps)
        if spec["structure"] == "dag" and rng.random() < 0.6:
            # finite-horizon problems converge within n_states sweeps whatever gamma is: discount factors a
            # hair below one, where the threshold eps*(1-g)/g is 5-9 decades below eps
            g = float(rng.choice([0.99999, 0.999995, 1 - 1e-7]))
            spec["init"] = "none"       # a non-zero initial value of the absorbing sink would decay at rate gamma only
            rel = float(10.0 ** rng.uniform(-2.5, 0.5))
            eps = rel * spec["scale"]
        S = spec["S"]
        dev = int(rng.choice(devs))
        for (sv, test) in COMBOS:
            c = dict(kind="gen", spec=spec, solver=sv, test=test, gamma=g, epsilon=eps, eps_rel=rel, tier=tier,
                     max_batch_size=common.batch_choices(rng, S), devices=dev)
            if sv == "pi":
                u = rng.random()
                c["max_eval_iter"] = AMPLE if u < 0.8 else (100 if u < 0.9 else int(rng.integers(1, 6)))
                if g > 0.9999:
                    c["max_eval_iter"] = AMPLE      # finite-horizon problems: evaluation is exact after n_states sweeps
                c["reset"] = bool(rng.integers(0, 2))
                # self-consistent warm start: a (generally suboptimal) incumbent policy together with its
                # own exact value function, or a constant-reward incumbent with zero values - the very
                # first evaluation sweep already passes the stopping test
                c["warm"] = [None, None, None, "incumbent", "flat"][int(rng.integers(0, 5))]
                if g > 0.9999:
                    c["warm"] = None     # a non-zero start at the absorbing sink decays at rate gamma only: unaffordable
            if sv == "sa":
                c["shuffle"] = bool(rng.integers(0, 2))
                c["random_seed"] = int(rng.integers(0, 10**6))
            cases.append(c)
    for j, (name, params) in enumerate(shipped.SMALL):
        for (sv, test) in COMBOS[:5]:
            if tier == "quick" and (j + len(sv)) % 2:
                continue
            c = dict(kind="shipped", name=name, params=params, solver=sv, test=test,
                     gamma=float(rng.choice([0.6, 0.9, 0.95])), epsilon=float(10.0 ** rng.uniform(-6, 0)),
                     eps_rel=1e-3, max_batch_size=int(rng.choice([5, 64, 1024])), devices=1)
            if sv == "pi":
                c["max_eval_iter"] = AMPLE
                c["reset"] = False
            if sv == "sa":
                c["shuffle"] = bool(rng.integers(0, 2))
                c["random_seed"] = 3
            cases.append(c)
    return cases


def bounds(sv, test, eps, g):
    """(policy bound, value bound, value reference) per the property statement."""
    if sv == "vi":
        return (eps, None, None) if test == "span" else (2 * eps, eps, "vstar")
    if sv == "pi":
        return (eps / g, None, None) if test == "span" else (2 * eps / g, eps / g, "vpi")
    if sv == "sa":
        return (None, None, None) if test == "span" else (2 * g * eps / (1 - g), eps, "vstar")
    raise ValueError(sv)


def warm_problem(case, g):
    """Tabular problem whose initial policy / initial values are self-consistent (see gen_cases)."""
    from vf import tabular, target

    spec = case["spec"]
    t = gen.build(spec)
    P, R = refmdp.tables(t["nxt"], t["rew"], t["prob"])
    S, A = R.shape
    r = np.random.default_rng(spec["gseed"] + 5)
    if case["warm"] == "incumbent":
        pi0 = r.integers(0, A, size=S) if t.get("ipol") is None else np.asarray(t["ipol"])
        t["ipol"] = pi0
        t["init"] = refmdp.evalpi(P, R, pi0, g)
    else:  # "flat": action 0 earns the same expected reward c in every state; v0 = c/(1-g)
        c = float(r.normal() * spec["scale"])
        if t.get("intrew"):
            c = float(np.round(c))          # integer-reward problems hand their table out as int32
        t["rew"][:, 0, :] = c
        t["ipol"] = np.zeros(S, dtype=int)
        t["init"] = np.full(S, c / (1.0 - g)) if r.random() < 0.5 else None
        if t["init"] is None:
            t["rew"][:, 0, :] = 0.0
    problem = target.call("construct problem", tabular.make, spec, t)
    return (problem, t["nxt"], t["rew"], t["prob"], float(spec["scale"]), spec["structure"] + "+warm-" + case["warm"],
            list(gen.interface_class(spec, t)), t)


def run_case(case):
    from vf import target

    g, eps, sv, test = case["gamma"], case["epsilon"], case["solver"], case["test"]
    if case.get("warm") and case.get("kind") == "gen":
        problem, nxt, rew, prob, scale, struct, iface, t = warm_problem(case, g)
    else:
        problem, nxt, rew, prob, scale, struct, iface, t = common.build_problem(case)
    P, R = refmdp.tables(nxt, rew, prob)
    S, A = R.shape
    kw = dict(gamma=g, epsilon=eps, max_batch_size=case["max_batch_size"], convergence_test=test)
    if sv == "pi":
        kw.update(max_eval_iter=case["max_eval_iter"], reset_values_for_each_policy_eval=case["reset"])
    if sv == "sa":
        kw.update(shuffle_states=case["shuffle"], random_seed=case["random_seed"])
    s = target.make_solver(sv, problem, **kw)
    shape, n_pad, part = common.partition_class(s)
    thr = common.threshold(eps, g)
    init_mag = float(np.abs(np.asarray(s.values)).max())
    D = 2.0 * (np.abs(R).max() / (1.0 - g) + init_mag) + 1e-300
    need = common.sweeps_needed(g, thr, D)
    hard = 40000 if case.get("tier") == "thorough" else 6000
    cap = min(hard, need + 50)
    if sv == "pi":
        # policy iteration can alternate for ever between policies that are tied up to rounding (no liveness is claimed);
        # every iteration costs one evaluation, so the iteration cap follows from a budget of evaluation sweeps per case
        per_eval = max(1, min(int(case["max_eval_iter"]), int(need)))
        budget = 150_000 if case.get("tier") == "thorough" else 40_000
        cap = int(max(12, min(1000 if case.get("tier") == "thorough" else 150, budget // per_eval)))
    if sv == "sa":
        cap = min(hard, 2 * need + 50)
    if struct.startswith("dag") and sv != "pi":
        cap = 4 * S + 50
    res = target.solve(s, cap)
    it = int(res.info.iteration)
    if it >= cap:
        return dict(status="skip", reason="not_converged")
    v = target.np_values(res.values)
    if v.shape != (S,):
        return dict(status="violation", kind="shape", detail=f"values shape {v.shape} != ({S},)")
    pidx = target.policy_indices(res.policy, np.asarray(problem.action_space))
    if len(pidx) != S or (pidx < 0).any():
        return dict(status="violation", kind="policy-row",
                    detail=f"{sv}/{test}: returned policy has a row outside the action space "
                           f"(state {int(np.argmax(pidx < 0)) if len(pidx) == S else 'len ' + str(len(pidx))})")
    vs, _, resid = refmdp.vstar(P, R, g)
    vmag = float(np.abs(vs).max())
    slack = 1e-9 * (vmag + scale) + 1e-300        # relative: rewards may be of any scale, also 1e-12
    if resid > 1e-6 * (vmag + scale):
        return dict(status="skip", reason="ill_conditioned_reference")
    slack = max(slack, 10.0 * resid)      # the reference itself is only this accurate (gamma a hair below 1)
    vp = refmdp.evalpi(P, R, pidx, g)
    gap = float(np.max(vs - vp))
    pb, vb, vref = bounds(sv, test, eps, g)
    Qs = refmdp.q(P, R, g, vs)
    nontrivial = bool((Qs.max(1) - Qs.min(1)).max() > 10 * slack) and it >= 2
    cls = [struct, iface, f"{sv}/{test}" + ("/shuffle" if case.get("shuffle") else ""),
           gen.gamma_bucket(g), gen.eps_bucket(case["eps_rel"]), part]
    base = dict(cls=cls, nontrivial=nontrivial, iteration=it, gap=gap, batch_shape=list(shape), n_pad=n_pad)
    if pb is None:
        return dict(status="ok", note="no bound stated for semi-async/span; policy rows checked", **base)

    fails = []
    if gap > pb + slack:
        fails.append(f"policy gap {gap:.6g} > bound {pb:.6g}")
    verr = None
    if vb is not None:
        ref = vs if vref == "vstar" else vp
        verr = float(np.abs(v - ref).max())
        if verr > vb + slack:
            fails.append(f"|values - {vref}| = {verr:.6g} > bound {vb:.6g}")
    base.update(policy_ratio=gap / pb, value_ratio=(verr / vb) if vb else None)

    if sv == "pi":
        m = refmdp.policy_measure(P, R, g, v, pidx, test)
        passed = m < thr
        need_eval = common.sweeps_needed(g, thr, 4.0 * (np.abs(R).max() / (1.0 - g) + init_mag + vmag) + 1e-300)
        ample = case["max_eval_iter"] >= 10 * need_eval
        base.update(eval_measure=m, eval_threshold=thr, eval_ample=ample)
        if not passed and not common.near(m, thr):
            if ample:
                return dict(status="violation", kind="pi-eval-test-failed",
                            detail=f"pi/{test}: evaluation budget {case['max_eval_iter']} >= 10x the "
                                   f"contraction bound {need_eval}, yet returned values fail the evaluation "
                                   f"test for the returned policy: measure {m:.6g} >= threshold {thr:.6g}",
                            **base)
            if fails:
                return dict(status="known", key="pi-eval-budget-exhausted",
                            detail=f"max_eval_iter={case['max_eval_iter']}; measure {m:.4g} >= thr {thr:.4g}; "
                                   + "; ".join(fails), **base)
            return dict(status="skip", reason="pi_eval_budget_exhausted_bounds_hold")
    if fails:
        return dict(status="violation", kind="bound",
                    detail=f"{sv}/{test} g={g} eps={eps:.6g} it={it} batch_shape={shape} n_pad={n_pad} "
                           f"shuffle={case.get('shuffle')}: " + "; ".join(fails), **base)
    return dict(status="ok", **base)


def aggregate(records, cases):
    out = {}
    per = {}
    for r in records:
        if r["status"] != "ok" or "policy_ratio" not in r:
            continue
        k = r["cls"][2]
        a = per.setdefault(k, dict(n=0, worst_policy_ratio=0.0, worst_value_ratio=0.0))
        a["n"] += 1
        a["worst_policy_ratio"] = max(a["worst_policy_ratio"], r["policy_ratio"])
        if r.get("value_ratio") is not None:
            a["worst_value_ratio"] = max(a["worst_value_ratio"], r["value_ratio"])
    out["per_solver_test"] = per
    out["distinct_partitions"] = len({tuple(r["batch_shape"]) + (r["n_pad"],) for r in records if r["status"] == "ok"})
    return out


def coverage_check(records, cases, tier):
    need = 30 if tier == "quick" else 300
    per = {}
    for r in records:
        if r["status"] == "ok" and "policy_ratio" in r:
            per[r["cls"][2].replace("/shuffle", "")] = per.get(r["cls"][2].replace("/shuffle", ""), 0) + 1
    for k in ("vi/span", "vi/max_diff", "pi/span", "pi/max_diff", "sa/max_diff"):
        if per.get(k, 0) < need:
            return f"only {per.get(k, 0)} deciding runs for {k} (< {need})"
    return None
