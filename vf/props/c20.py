"""C20 - configuration contract: valid parameters work by every route, invalid ones are rejected.

Monitor shape: differential + contract monitoring at the public constructors.  (routes) the same
validated parameter set is passed as kwargs + problem instance, as a configuration object alone, and
through the saved YAML via restore(); configurations and solve() results must agree and solve() must
return finite float64 values for boundary gamma / epsilon.  (reject) every documented out-of-domain
value must raise ValueError/TypeError at construction.  (order) fresh processes build problem and
solver in both orders with double precision requested.
"""

import json
import os
import subprocess
import sys

import numpy as np

LEVEL = "exploration"
TECHNIQUE = "differential monitoring of the three construction routes + exception-contract monitor over the documented domain boundaries + fresh-process construction-order probes"
RULE = ("cases: routes = 5 solver classes x {forest, De Moor} x gamma in {0,1e-9,.5,1-1e-9,1} x epsilon in "
        "{1e-12..1e6} (thresholds below/above 1,10,100,1e4) compared across the three construction routes and run "
        "with solve(); reject = one case per (solver or problem, field, invalid value) from the statement's list; "
        "order = fresh processes, problem built before / after 64-bit mode, constructor and restore() routes. "
        "distinct = distinct (kind, solver/problem, gamma class, threshold decade | field).")
ASSUMPTIONS = ["bit equality of results is required within one process/platform",
               "the float32 README-order behaviour is a listed known finding (problem-built-before-x64), recognised "
               "only by its dtype signature"]
MIN_DECIDING = {"quick": 150, "thorough": 280}
SHARD_TIMEOUT = {"quick": 1800, "thorough": 7200}
TARGET_SHARDS = {"quick": 48, "thorough": 96}

SOLVERS = ["vi", "pi", "rvi", "per", "sa"]
GAMMAS = [0.0, 1e-9, 0.5, 1 - 1e-9, 1.0]
EPSS = [1e-12, 1e-6, 1e-3, 0.5, 5.0, 50.0, 500.0, 5e4, 1e6]
PROBLEMS = [("forest", dict(S=4, r1=4.0, r2=2.0, p=0.1)),
            ("de_moor", dict(max_order_quantity=2, max_demand=4, max_useful_life=2, lead_time=1)),
            ("mirjalili", dict(max_useful_life=2, max_order_quantity=2, max_demand=3,
                               useful_life_at_arrival_distribution_c_0=[1.0],
                               useful_life_at_arrival_distribution_c_1=[0.5])),
            # documented boundary values of a probability parameter
            ("hendrix", dict(max_useful_life=1, max_order_quantity_a=2, max_order_quantity_b=2, substitution_probability=1.0)),
            ("hendrix", dict(max_useful_life=1, max_order_quantity_a=2, max_order_quantity_b=1, substitution_probability=0.0))]

_UP = float(np.nextafter(1.0, 2.0))
_DOWN = float(np.nextafter(1.0, 0.0))
SOLVER_REJECTS = [
    ("gamma", -0.1, ["vi", "pi", "per", "sa"]), ("gamma", 1.1, ["vi", "pi", "per", "sa"]),
    ("gamma", 0.99, ["rvi"]), ("gamma", 0.0, ["rvi"]),
    # just outside the documented domains
    ("gamma", _UP, ["vi", "pi", "per", "sa", "rvi"]), ("gamma", -1e-12, ["vi", "pi", "per", "sa"]),
    ("gamma", _DOWN, ["rvi"]), ("gamma", 1 - 1e-12, ["rvi"]), ("gamma", 1 + 1e-10, ["rvi"]),
    ("epsilon", -1e-300, SOLVERS), ("max_eval_iter", -1, ["pi"]),
    ("epsilon", 0.0, SOLVERS), ("epsilon", -1e-3, SOLVERS),
    ("max_batch_size", 0, SOLVERS), ("max_batch_size", -1, SOLVERS),
    ("period", 0, ["per"]), ("period", -2, ["per"]), ("period@gamma1", 1, ["per"]),
    ("max_eval_iter", 0, ["pi"]), ("max_eval_iter", -5, ["pi"]),
    ("checkpoint_frequency", -1, SOLVERS), ("max_checkpoints", -1, SOLVERS),
    ("verbose", -1, SOLVERS), ("verbose", 5, SOLVERS),
    ("convergence_test", "foo", ["vi", "pi", "sa"]),
    # near misses of the documented names are unknown names too
    ("convergence_test", "SPAN", ["vi", "pi", "sa"]), ("convergence_test", "Max_Diff", ["vi", "pi", "sa"]),
    ("convergence_test", "span ", ["vi", "pi", "sa"]), ("convergence_test", "", ["vi", "pi", "sa"]),
]
PROBLEM_REJECTS = [
    ("forest", "S", 0), ("forest", "S", -3), ("forest", "p", -0.1), ("forest", "p", 1.1),
    ("de_moor", "max_demand", 0), ("de_moor", "demand_gamma_mean", 0.0), ("de_moor", "demand_gamma_cov", 0.0),
    ("de_moor", "demand_gamma_cov", -1.0), ("de_moor", "max_useful_life", 0), ("de_moor", "lead_time", 0),
    ("de_moor", "max_order_quantity", 0), ("de_moor", "issue_policy", "xifo"),
    ("de_moor", "issue_policy", "FIFO"), ("de_moor", "issue_policy", "Lifo"), ("de_moor", "issue_policy", "fifo "),
    ("de_moor", "issue_policy", ""),
    ("hendrix", "max_useful_life", 0), ("hendrix", "demand_poisson_mean_a", 0.0), ("hendrix", "demand_poisson_mean_b", -1.0),
    ("hendrix", "substitution_probability", -0.1), ("hendrix", "substitution_probability", 1.1),
    ("hendrix", "max_order_quantity_a", 0), ("hendrix", "max_order_quantity_b", 0),
    ("mirjalili", "max_demand", 0), ("mirjalili", "weekday_demand_negbin_n", [1.0] * 6),
    ("mirjalili", "weekday_demand_negbin_n", [1.0] * 6 + [0.0]), ("mirjalili", "weekday_demand_negbin_delta", [1.0] * 8),
    ("mirjalili", "weekday_demand_negbin_delta", [1.0] * 6 + [-2.0]), ("mirjalili", "max_useful_life", 0),
    ("mirjalili", "useful_life_at_arrival_distribution_c_0", [1.0, 2.0]), ("mirjalili", "useful_life_at_arrival_distribution_c_1", [0.1, 0.2, 0.3]),
    ("mirjalili", "max_order_quantity", 0),
]


def gen_cases(seed, tier):
    rng = np.random.default_rng([seed, 20])
    cases = []
    for sv in SOLVERS:
        gs = [1.0] if sv == "rvi" else GAMMAS
        combos = [(g, float(e)) for g in gs for e in rng.choice(EPSS, size=2 if tier == "quick" else 5, replace=False)]
        combos += [(float(rng.choice(gs)), e) for e in EPSS]
        if tier == "thorough":
            combos = [(g, e) for g in gs for e in EPSS]
        # integer-valued parameters written as Python ints are accepted by the validators too
        combos += [(1 if sv in ("rvi", "per", "vi") else 0.5, 1), (float(rng.choice(gs)), 100)]
        if sv not in ("rvi",):
            combos += [(0, 0.5), (1, 2)]
        for (g, e) in combos:
            pn, pp = PROBLEMS[int(rng.integers(0, len(PROBLEMS)))]
            cases.append(dict(kind="routes", solver=sv, gamma=g, epsilon=e, pname=pn, pparams=pp, devices=1, opt=len(cases),
                              period=int(rng.integers(2, 4)), mb=int(rng.choice([3, 64, 1024]))))
    for (field, val, svs) in SOLVER_REJECTS:
        for sv in svs:
            cases.append(dict(kind="reject-solver", solver=sv, field=field, value=val, devices=1))
    for (pn, field, val) in PROBLEM_REJECTS:
        cases.append(dict(kind="reject-problem", pname=pn, field=field, value=val, devices=1))
    for sv in SOLVERS:
        for route in ("constructor", "restore"):
            cases.append(dict(kind="order", solver=sv, route=route, devices=1))
    return cases


def _norm(x):
    import dataclasses

    if dataclasses.is_dataclass(x) and not isinstance(x, type):
        x = dataclasses.asdict(x)
    try:
        from omegaconf import DictConfig, ListConfig, OmegaConf

        if isinstance(x, (DictConfig, ListConfig)):
            x = OmegaConf.to_container(x)
    except ImportError:
        pass
    if isinstance(x, dict):
        return {k: _norm(v) for k, v in x.items()}
    if isinstance(x, (list, tuple)):
        return [_norm(v) for v in x]
    return x


def _solver_kwargs(sv, g, e, period, mb, opt=0):
    kw = dict(gamma=g, epsilon=e, max_batch_size=mb, verbose=opt % 5)
    # solver-specific options cycle with the case index: every route must carry them identically
    if sv in ("vi", "sa", "pi"):
        kw["convergence_test"] = ["span", "max_diff"][opt % 2]
    if sv == "sa":
        kw.update(shuffle_states=bool((opt // 2) % 2), random_seed=1000 + opt)
    if sv == "pi":
        kw.update(max_eval_iter=[100, 7, 1][opt % 3], reset_values_for_each_policy_eval=bool((opt // 3) % 2))
    if sv == "rvi":
        kw.pop("gamma")
    if sv == "per":
        # keep the history: the route check continues the solver after it may have converged
        kw.update(period=period, clear_value_history_on_convergence=False)
    return kw


def run_case(case):
    return {"routes": _routes, "reject-solver": _reject_solver, "reject-problem": _reject_problem,
            "order": _order}[case["kind"]](case)


def _routes(case):
    import tempfile

    from vf import shipped, target
    from mdpax.solvers.periodic_value_iteration import PeriodicValueIterationConfig
    from mdpax.solvers.policy_iteration import PolicyIterationConfig
    from mdpax.solvers.relative_value_iteration import RelativeValueIterationConfig
    from mdpax.solvers.semi_async_value_iteration import SemiAsyncValueIterationConfig
    from mdpax.solvers.value_iteration import ValueIterationConfig

    CFG = dict(vi=ValueIterationConfig, pi=PolicyIterationConfig, rvi=RelativeValueIterationConfig,
               per=PeriodicValueIterationConfig, sa=SemiAsyncValueIterationConfig)
    sv, g, e = case["solver"], case["gamma"], case["epsilon"]
    cls = target.SOLVERS[sv]
    where = f"{sv} gamma={g!r} epsilon={e!r} problem={case['pname']}"
    K = 4
    tmp = tempfile.mkdtemp(prefix="vf_c20_")
    try:
        kw = _solver_kwargs(sv, g, e, case["period"], case["mb"], int(case.get("opt", 0)))
        ck = dict(checkpoint_frequency=1, max_checkpoints=2, enable_async_checkpointing=False)
        # route A: kwargs + problem instance
        pa = target.call("construct problem", shipped.make, case["pname"], case["pparams"])
        a = target.call(f"route kwargs: {where}", cls, pa, checkpoint_dir=os.path.join(tmp, "a"), **ck, **kw)
        # route B: configuration object alone
        pb = target.call("construct problem", shipped.make, case["pname"], case["pparams"])
        cfg = target.call(f"build config: {where}", CFG[sv], problem=pb.config, checkpoint_dir=os.path.join(tmp, "b"), **ck, **kw)
        b = target.call(f"route config-only: {where}", cls, config=cfg)
        ra = target.call(f"solve route kwargs: {where}", a.solve, K)
        rb = target.call(f"solve route config-only: {where}", b.solve, K)
        # route D: a configuration object REUSED from another run of a parameter sweep (its nested problem
        # section still describes the other instance) together with this problem instance: the instance wins
        other = dict(case["pparams"])
        other.update({"forest": dict(r1=7.5, p=0.3), "de_moor": dict(shortage_cost=9.0), "mirjalili": dict(shortage_cost=11.0),
                      "hendrix": dict(sales_price_a=2.5)}[case["pname"]])
        po = target.call("construct sweep-neighbour problem", shipped.make, case["pname"], other)
        cfg_d = target.call(f"build config: {where}", CFG[sv], problem=po.config, checkpoint_dir=os.path.join(tmp, "d"), **ck, **kw)
        pd = target.call("construct problem", shipped.make, case["pname"], case["pparams"])
        d = target.call(f"route config object + instance: {where}", cls, pd, config=cfg_d)
        rd = target.call(f"solve route config object + instance: {where}", d.solve, K)
        dd = target.call(f"route restore(yaml) of the config+instance run: {where}", cls.restore, os.path.join(tmp, "d"),
                         new_checkpoint_dir=os.path.join(tmp, "dd"))
        cd_, cdd = _norm(d.config), _norm(dd.config)
        cd_.pop("checkpoint_dir", None), cdd.pop("checkpoint_dir", None)
        ca0 = _norm(a.config)
        ca0.pop("checkpoint_dir", None)
        if cd_ != ca0 or cdd != ca0:
            diff = [k for k in ca0 if ca0.get(k) != cd_.get(k) or ca0.get(k) != cdd.get(k)]
            return dict(status="violation", kind="config-differs",
                        detail=f"{where}: solver built from a reused configuration object + this problem instance (or its "
                               f"restore) does not describe this problem: differs in {diff}: kwargs={ {k: ca0.get(k) for k in diff} } "
                               f"config+instance={ {k: cd_.get(k) for k in diff} } its restore={ {k: cdd.get(k) for k in diff} }")
        if int(rd.info.iteration) != int(ra.info.iteration) or not np.array_equal(np.asarray(rd.values), np.asarray(ra.values)) \
                or int(dd.iteration) != int(rd.info.iteration) or not np.array_equal(np.asarray(dd.values), np.asarray(rd.values)):
            return dict(status="violation", kind="routes-differ",
                        detail=f"{where}: config object + instance route (or its restore) gives other results than the kwargs route")
        rdd = target.call(f"continue restored config+instance run: {where}", dd.solve, 1)
        rd1 = target.call(f"continue config+instance run: {where}", d.solve, 1)
        if not bool(kw.get("shuffle_states")) and not np.allclose(np.asarray(rdd.values), np.asarray(rd1.values), rtol=1e-12, atol=0):
            return dict(status="violation", kind="routes-differ",
                        detail=f"{where}: the restore of a config object + instance run continues on another problem than the run itself")
        # route C: reloaded from the saved configuration file
        c = target.call(f"route restore(yaml): {where}", cls.restore, os.path.join(tmp, "a"),
                        new_checkpoint_dir=os.path.join(tmp, "c"))
        ca, cb, cc = _norm(a.config), _norm(b.config), _norm(c.config)
        for d in (ca, cb, cc):
            d.pop("checkpoint_dir", None)
        if ca != cb or ca != cc:
            diff = [k for k in ca if ca.get(k) != cb.get(k) or ca.get(k) != cc.get(k)]
            return dict(status="violation", kind="config-differs",
                        detail=f"{where}: configurations differ between routes in {diff}: kwargs={ {k: ca.get(k) for k in diff} } "
                               f"config-only={ {k: cb.get(k) for k in diff} } restore={ {k: cc.get(k) for k in diff} }")
        for name, r in (("kwargs", ra), ("config-only", rb)):
            v = np.asarray(r.values)
            if v.dtype != np.float64:
                return dict(status="violation", kind="dtype", detail=f"{where}: route {name} returned values of dtype {v.dtype}")
            if not np.isfinite(v).all():
                return dict(status="violation", kind="non-finite", detail=f"{where}: route {name} returned non-finite values")
        if int(ra.info.iteration) != int(rb.info.iteration) or not np.array_equal(np.asarray(ra.values), np.asarray(rb.values)) \
                or not np.array_equal(np.asarray(ra.policy), np.asarray(rb.policy)):
            return dict(status="violation", kind="routes-differ",
                        detail=f"{where}: kwargs and config-only routes give different results "
                               f"(iterations {int(ra.info.iteration)} vs {int(rb.info.iteration)})")
        # restored solver holds A's final state and continues like A
        if int(c.iteration) != int(ra.info.iteration) or not np.array_equal(np.asarray(c.values), np.asarray(ra.values)):
            return dict(status="violation", kind="routes-differ", detail=f"{where}: restore() route does not hold the saved state")
        converged_gamma0 = int(ra.info.iteration) < K
        ra2 = target.call(f"continue route kwargs: {where}", a.solve, 2)
        rc2 = target.call(f"continue route restore: {where}", c.solve, 2)
        # (with state shuffling the permutation stream is not part of the saved state: a resumed run
        # legitimately takes other sweeps - C09 only promises the error bound there)
        shuffled = bool(kw.get("shuffle_states"))
        if not shuffled and (int(ra2.info.iteration) != int(rc2.info.iteration) or
                             not np.allclose(np.asarray(ra2.values), np.asarray(rc2.values), rtol=1e-12, atol=0)):
            return dict(status="violation", kind="routes-differ",
                        detail=f"{where}: continuing after restore() differs from continuing the original solver")
        for s_ in (a, b, c, d, dd):
            if getattr(s_, "checkpoint_manager", None) is not None:
                s_.checkpoint_manager.wait_until_finished()
        thr = e if (g == 1.0 or sv in ("rvi", "per")) else (float("inf") if g == 0 else e * (1 - g) / g)
        dec = "inf" if not np.isfinite(thr) else str(int(np.floor(np.log10(thr))))
        gcl = {0.0: "g=0", 1.0: "g=1"}.get(g, "g~0" if g < 1e-3 else ("g~1" if g > 0.999 else "g=.5"))
        return dict(status="ok", cls=["routes", sv, gcl, f"thr~1e{dec}", case["pname"]], n_obs=5,
                    stopped_early=converged_gamma0)
    finally:
        import shutil

        shutil.rmtree(tmp, ignore_errors=True)


def _reject_solver(case):
    from vf import shipped, target

    sv, field, val = case["solver"], case["field"], case["value"]
    kw = _solver_kwargs(sv, 0.9, 1e-3, 2, 64)
    kw["verbose"] = 0
    if field == "period@gamma1":
        kw.update(gamma=1.0, period=val)
    elif sv == "rvi" and field == "gamma":
        kw["gamma"] = val
    else:
        kw[field] = val
    problem = shipped.make("forest", dict(S=3))
    try:
        s = target.SOLVERS[sv](problem, **kw)
    except (ValueError, TypeError) as e:
        return dict(status="ok", cls=["reject-solver", sv, field, repr(val)], exc=type(e).__name__)
    except Exception as e:  # noqa: BLE001
        return dict(status="violation", kind="wrong-exception",
                    detail=f"{sv}({field}={val!r}) raised {type(e).__name__} instead of ValueError/TypeError: {str(e)[:200]}")
    return dict(status="violation", kind="accepted",
                detail=f"{sv}({field}={val!r}) was accepted at construction (documented domain excludes it); config={_norm(s.config)}")


def _reject_problem(case):
    from vf import shipped

    pn, field, val = case["pname"], case["field"], case["value"]
    base = dict(PROBLEMS + [("hendrix", dict(max_useful_life=1, max_order_quantity_a=2, max_order_quantity_b=2))])[pn]
    params = dict(base)
    params[field] = val
    if pn == "mirjalili" and field == "max_useful_life":
        params.update(useful_life_at_arrival_distribution_c_0=[], useful_life_at_arrival_distribution_c_1=[])
    try:
        shipped.make(pn, params)
    except (ValueError, TypeError) as e:
        return dict(status="ok", cls=["reject-problem", pn, field, repr(val)], exc=type(e).__name__)
    except Exception as e:  # noqa: BLE001
        return dict(status="violation", kind="wrong-exception",
                    detail=f"{pn}({field}={val!r}) raised {type(e).__name__} instead of ValueError/TypeError: {str(e)[:200]}")
    return dict(status="violation", kind="accepted", detail=f"{pn}({field}={val!r}) was accepted at construction")


_CHILD = r'''
import sys, json, os, hashlib, tempfile, shutil
if os.environ.get("MDPAX_SRC"): sys.path.insert(0, os.environ["MDPAX_SRC"])
order, sv, route = sys.argv[1], sys.argv[2], sys.argv[3]
import jax
x64_at_problem = None
if order == "x64first":
    jax.config.update("jax_enable_x64", True)
import numpy as np
from mdpax.problems import DeMoorSingleProductPerishable
from mdpax.solvers import ValueIteration, PolicyIteration, RelativeValueIteration, PeriodicValueIteration, SemiAsyncValueIteration
C = dict(vi=ValueIteration, pi=PolicyIteration, rvi=RelativeValueIteration, per=PeriodicValueIteration, sa=SemiAsyncValueIteration)[sv]
kw = dict(verbose=0, epsilon=1e-3)
if sv != "rvi": kw["gamma"] = 0.9
if sv == "per": kw["period"] = 2
if sv == "pi": kw["max_eval_iter"] = 20
tmp = tempfile.mkdtemp(prefix="vf_c20o_")
try:
    if route == "constructor":
        x64_at_problem = bool(jax.config.jax_enable_x64)
        p = DeMoorSingleProductPerishable(max_order_quantity=3, max_demand=8)
        s = C(p, **kw)
        r = s.solve(60)
    else:
        # a checkpoint written by a correct 64-bit run, restored in this fresh process
        if order != "x64first":
            # writer runs in a child with x64 first so the directory content is float64
            import subprocess
            subprocess.run([sys.executable, "-c", WRITER, sv, tmp], check=True, env=dict(os.environ), capture_output=True)
        else:
            exec(WRITER_BODY, dict(sv=sv, tmp=tmp))
        x64_at_problem = bool(jax.config.jax_enable_x64)
        s = C.restore(tmp)
        r = s.solve(60)
        s.checkpoint_manager.wait_until_finished()
    v = np.asarray(r.values)
    print("RESULT " + json.dumps(dict(dtype=str(v.dtype), it=int(r.info.iteration), x64_at_problem=x64_at_problem,
          x64_after=bool(jax.config.jax_enable_x64),
          vsum=float(np.asarray(v, dtype=np.float64).sum()), v0=float(v.reshape(-1)[0]))))
finally:
    shutil.rmtree(tmp, ignore_errors=True)
'''

_WRITER_BODY = r'''
import jax
jax.config.update("jax_enable_x64", True)
from mdpax.problems import DeMoorSingleProductPerishable
from mdpax.solvers import ValueIteration, PolicyIteration, RelativeValueIteration, PeriodicValueIteration, SemiAsyncValueIteration
C = dict(vi=ValueIteration, pi=PolicyIteration, rvi=RelativeValueIteration, per=PeriodicValueIteration, sa=SemiAsyncValueIteration)[sv]
kw = dict(verbose=0, epsilon=1e-3)
if sv != "rvi": kw["gamma"] = 0.9
if sv == "per": kw["period"] = 2
if sv == "pi": kw["max_eval_iter"] = 20
s = C(DeMoorSingleProductPerishable(max_order_quantity=3, max_demand=8), checkpoint_dir=tmp, checkpoint_frequency=1, max_checkpoints=1, enable_async_checkpointing=False, **kw)
s.solve(2)
'''


def _order(case):
    sv, route = case["solver"], case["route"]
    writer = ("import sys, os\nif os.environ.get('MDPAX_SRC'): sys.path.insert(0, os.environ['MDPAX_SRC'])\n"
              "sv, tmp = sys.argv[1], sys.argv[2]\n" + _WRITER_BODY)
    script = ("WRITER = " + repr(writer) + "\nWRITER_BODY = " + repr(_WRITER_BODY) + "\n" + _CHILD)
    env = dict(os.environ)
    env["VF_NO_X64"] = "1"
    out = {}
    for order in ("x64first", "problemfirst"):
        p = subprocess.run([sys.executable, "-c", script, order, sv, route], env=env, capture_output=True, text=True, timeout=900)
        line = [l for l in p.stdout.splitlines() if l.startswith("RESULT ")]
        if not line:
            if order == "problemfirst":
                return dict(status="violation", kind="order-crash",
                            detail=f"{sv}/{route}: problem-first construction failed: {p.stderr[-400:]}")
            return dict(status="error", detail=f"harness: x64-first child failed: {p.stderr[-600:]}")
        out[order] = json.loads(line[0][7:])
    a, b = out["x64first"], out["problemfirst"]
    if a["dtype"] != "float64":
        return dict(status="violation", kind="dtype", detail=f"{sv}/{route}: 64-bit-first construction returned {a['dtype']}")
    same = (b["dtype"] == "float64" and b["it"] == a["it"] and abs(b["vsum"] - a["vsum"]) <= 1e-9 * (1 + abs(a["vsum"])))
    cls = ["order", sv, route]
    if same:
        return dict(status="ok", cls=cls, n_obs=2)
    detail = (f"{sv}/{route}: problem built before 64-bit mode was enabled: result dtype {b['dtype']}, iterations {b['it']} vs {a['it']}, "
              f"sum(values) {b['vsum']!r} vs {a['vsum']!r}")
    if b["dtype"] != "float64":
        # repaired (known_findings.txt, "fixed: property=C20 ... float32 values"): double precision was requested
        return dict(status="violation", kind="dtype", detail=detail)
    if b["x64_at_problem"] is False and b["x64_after"] is True:
        return dict(status="known", key="problem-built-before-x64", detail=detail, cls=cls)
    return dict(status="violation", kind="order", detail=detail)


def aggregate(records, cases):
    ok = [r for r in records if r["status"] in ("ok", "known")]
    k = {}
    for r in ok:
        k[r["cls"][0]] = k.get(r["cls"][0], 0) + 1
    return dict(cases_by_kind=k, rejection_exception_types=sorted({r["exc"] for r in ok if "exc" in r}))


def coverage_check(records, cases, tier):
    k = aggregate(records, cases)["cases_by_kind"]
    if k.get("routes", 0) < 60:
        return f"only {k.get('routes', 0)} route cases"
    if k.get("reject-solver", 0) < 40 or k.get("reject-problem", 0) < 25:
        return "rejection matrix incomplete"
    if k.get("order", 0) < 10:
        return "construction-order probes missing"
    return None
