"""C12 - checkpoint cadence and retention follow frequency and max_checkpoints.

Monitor shape: history + executable model.  A random history of solve() calls and restores is
applied to a real checkpointing solver; after every call (pending writes awaited) the directory
listing is compared with a 10-line model of the *statement* (eligible = multiples of f reached +
last iteration of each call; retained = the m most recent eligible), and at the end every
retained step is restored afresh and compared with what the solver held at that save() call.
"""

import os
import shutil

import numpy as np

from vf import gen, shipped

LEVEL = "exploration"
TECHNIQUE = "history monitor: directory listings after each solve()/restore of a random history checked against an executable model of the cadence/retention statement; per-step restore vs save-time snapshot"
RULE = ("cases = solver (all five) x problem (reduced shipped with config | tabular without config) x f in {0,1,2,3,5,7} x "
        "m in {1,2,3,5} x sync/async x epsilon (converging before/at/after a multiple of f, or hitting the cap) x a history "
        "of 1-4 ops: solve(k), restore(latest|older step, same|new directory, overrides). n_obs = directory listings "
        "compared; distinct = distinct (solver, f, m, async, history class, config?).")
ASSUMPTIONS = ["listing = numeric sub-directories after wait_until_finished()",
               "save() observed by wrapping the public method on the instance",
               "restoring an older step into the same directory and continuing is the listed known finding "
               "save-dropped-step-not-newer, recognised from the history itself"]
MIN_DECIDING = {"quick": 90, "thorough": 700}
SHARD_TIMEOUT = {"quick": 2400, "thorough": 10000}
TARGET_SHARDS = {"quick": 48, "thorough": 96}

SMALLP = [("forest", dict(S=6, r1=4.0, r2=2.0, p=0.1)), ("de_moor", dict(max_order_quantity=3, max_demand=8)),
          ("de_moor", dict(max_order_quantity=2, max_demand=5, max_useful_life=3, lead_time=2, issue_policy="fifo")),
          ("mirjalili", dict(max_useful_life=2, max_order_quantity=3, max_demand=4,
                             useful_life_at_arrival_distribution_c_0=[1.0], useful_life_at_arrival_distribution_c_1=[0.3]))]


def gen_cases(seed, tier):
    rng = np.random.default_rng([seed, 12])
    n = 150 if tier == "quick" else 1100
    cases = []
    for i in range(n):
        sv = ["vi", "pi", "rvi", "per", "sa"][i % 5]
        has_cfg = bool(rng.random() < 0.75)
        f = int(rng.choice([0, 1, 2, 3, 5, 7], p=[0.06, 0.2, 0.2, 0.2, 0.17, 0.17]))
        m = int(rng.choice([1, 2, 3, 5]))
        ops = []
        for j in range(int(rng.integers(1, 5))):
            if j > 0 and has_cfg and f > 0 and rng.random() < 0.4:
                ops.append(["restore", str(rng.choice(["latest", "latest", "older"])), str(rng.choice(["same", "new"])),
                            dict(f=[None, 0, 1, 2, 3][int(rng.integers(0, 5))], m=int(rng.choice([0, 1, 2, 4])) or None,
                                 asyn=[None, True, False][int(rng.integers(0, 3))])])
            ops.append(["solve", int(rng.integers(1, 13))])
        c = dict(solver=sv, f=f, m=m, asyn=bool(rng.integers(0, 2)), ops=ops, devices=1,
                 eps_rel=float(rng.choice([1e-9, 1e-9, 1e-2, 0.3])), default_dir=bool(rng.random() < 0.08))
        if has_cfg:
            nm, pp = SMALLP[int(rng.integers(0, len(SMALLP)))]
            c.update(kind="shipped", name=nm, params=pp)
        else:
            spec = gen.random_spec(rng, smin=3, smax=20, avg="unichain" if sv == "rvi" else None)
            spec["init"] = "none"
            c.update(kind="gen", spec=spec)
        cases.append(c)
    return cases


def run_case(case):
    from vf import ckpt, common, target

    sv = case["solver"]
    cls = target.SOLVERS[sv]
    problem, nxt, rew, prob, scale, struct, iface, t = common.build_problem(case)
    has_cfg = case["kind"] == "shipped"
    base = os.path.abspath(f"ck_{case['case_id']}")
    shutil.rmtree(base, ignore_errors=True)
    os.makedirs(base)
    cwd0 = os.getcwd()
    f, m, asyn = case["f"], case["m"], case["asyn"]
    kw = dict(ckpt.SOLVER_KW[sv])
    kw.update(epsilon=case["eps_rel"] * scale, checkpoint_frequency=f, max_checkpoints=m, enable_async_checkpointing=asyn)
    D = os.path.join(base, "d0")
    try:
        if case["default_dir"]:
            os.chdir(base)
            s = target.make_solver(sv, problem, **kw)
            D = str(s.checkpoint_dir) if f > 0 else os.path.join(base, "checkpoints")
        elif not has_cfg and case["case_id"] % 2 == 0:
            # a configuration-less problem passed together with an explicit solver configuration object whose
            # nested problem field describes ANOTHER (reconstructible) problem: still not reconstructible
            from mdpax.problems.forest import ForestConfig

            cfg = target.call("build solver config", cls.Config, problem=ForestConfig(S=3), checkpoint_dir=D, verbose=0, **kw)
            s = target.call(f"construct {sv} from problem + config object", cls, problem, config=cfg)
        else:
            s = target.make_solver(sv, problem, checkpoint_dir=D, **kw)
        log = ckpt.wrap_save(s, sv, [])
        eligible = set()
        n_list = 0
        hclass = set()
        f8 = None            # (newest step in dir when an older step was restored into the same dir)
        ndir = 0
        for op in case["ops"]:
            if op[0] == "solve":
                i0 = int(s.iteration)
                target.solve(s, op[1])
                i1 = int(s.iteration)
                ckpt.wait(s)
                if f == 0:
                    if os.path.exists(D) or ckpt.listing(base + "/checkpoints") is not None or any(l["step"] for l in log) and False:
                        return dict(status="violation", kind="f0-writes", detail=f"{sv}: checkpoint_frequency=0 but {D} exists")
                    n_list += 1
                    hclass.add("f0")
                    continue
                # the statement's model: eligible steps of this call join what the directory held and
                # the m most recent are retained (steps deleted earlier under a smaller m cannot come back)
                new = {j for j in range(i0 + 1, i1 + 1) if j % f == 0} | {i1}
                eligible = set(sorted(eligible | new)[-m:])
                got = ckpt.listing(D)
                exp = sorted(eligible)
                left = ckpt.tmp_leftovers(D)
                hist = f"{sv} f={f} m={m} async={asyn} ops={case['ops']} iteration {i0}->{i1}"
                if got != exp:
                    missing = sorted(set(exp) - set(got or []))
                    extra = sorted(set(got or []) - set(exp))
                    if f8 is not None and not extra and missing and all(k <= f8 for k in missing) \
                            or (f8 is not None and all(k <= f8 for k in missing) and all(k <= f8 for k in extra)):
                        return dict(status="known", key="save-dropped-step-not-newer",
                                    detail=f"{hist}: listing {got}, statement gives {exp}; an older step was restored into the "
                                           f"same directory whose newest step was {f8}, saves with step <= {f8} were dropped",
                                    cls=[sv, f"f{f}", f"m{m}", "restore-older-same"])
                    return dict(status="violation", kind="listing",
                                detail=f"{hist}: directory holds steps {got}, statement gives {exp} "
                                       f"(missing {missing}, unexpected {extra})")
                if left:
                    return dict(status="violation", kind="tmp-leftover", detail=f"{hist}: temporary entries remain after waiting: {left}")
                if os.path.exists(os.path.join(D, "config.yaml")) != has_cfg:
                    return dict(status="violation", kind="config-file",
                                detail=f"{hist}: config.yaml present={not has_cfg} but reconstructible={has_cfg}")
                n_list += 1
                hclass.add("converged" if i1 - i0 < op[1] else ("cap-on-multiple" if i1 % f == 0 else "cap-off-multiple"))
            else:
                _, which, where, ov = op
                ckpt.wait(s)
                if f == 0 or not has_cfg:
                    continue
                steps = ckpt.listing(D) or []
                if not steps:
                    continue
                step = None
                if which == "older" and len(steps) > 1:
                    step = steps[0]
                ndir += 1
                newD = os.path.join(base, f"d{ndir}") if where == "new" else None
                rkw = {}
                if ov.get("f") is not None:
                    rkw["checkpoint_frequency"] = ov["f"]     # 0 is a legitimate override: stop checkpointing
                if ov.get("m"):
                    rkw["max_checkpoints"] = ov["m"]
                if ov.get("asyn") is not None:
                    rkw["enable_async_checkpointing"] = ov["asyn"]
                s = target.call(f"restore(step={step}, new_dir={where}, {rkw})", cls.restore, D, step=step,
                                new_checkpoint_dir=newD, **rkw)
                log = ckpt.wrap_save(s, sv, log)
                f = ov["f"] if ov.get("f") is not None else f
                m = ov.get("m") or m
                if f == 0:
                    # checkpointing switched off by the override: nothing may be written from now on,
                    # neither into a new directory (which must not even be created) nor into the old one
                    if int(getattr(s, "checkpoint_frequency", -1)) != 0:
                        return dict(status="violation", kind="override",
                                    detail=f"restore(checkpoint_frequency=0) left frequency {getattr(s, 'checkpoint_frequency', None)} in effect")
                    frozen = ckpt.dir_digest(D)
                    i0 = int(s.iteration)
                    target.solve(s, 3)
                    ckpt.wait(s)
                    if newD and os.path.exists(newD):
                        return dict(status="violation", kind="f0-writes",
                                    detail=f"{sv}: restore(checkpoint_frequency=0, new directory) followed by solve() created {os.path.basename(newD)} "
                                           f"holding {ckpt.listing(newD)}")
                    if ckpt.dir_digest(D) != frozen:
                        return dict(status="violation", kind="f0-writes",
                                    detail=f"{sv}: restore(checkpoint_frequency=0) followed by solve() changed the checkpoint directory "
                                           f"(steps now {ckpt.listing(D)})")
                    n_list += 1
                    hclass.add("restore-f0")
                    break
                if ov.get("asyn") is not None:
                    asyn = ov["asyn"]
                if int(s.checkpoint_frequency) != f or int(s.max_checkpoints) != m or bool(s.enable_async_checkpointing) != asyn:
                    return dict(status="violation", kind="override",
                                detail=f"restore overrides {rkw} not in effect: f={s.checkpoint_frequency} m={s.max_checkpoints} "
                                       f"async={s.enable_async_checkpointing}")
                if where == "new" or os.path.abspath(str(s.checkpoint_dir)) != os.path.abspath(D):
                    # later saves go where the restored solver says (a default-directory solver restored
                    # without a new directory starts a fresh default directory)
                    D = os.path.abspath(str(s.checkpoint_dir))
                    eligible = set(ckpt.listing(D) or [])
                    f8 = None
                    hclass.add("restore-new-dir")
                else:
                    if step is not None and step < steps[-1]:
                        f8 = steps[-1]
                        hclass.add("restore-older-same")
                    else:
                        hclass.add("restore-latest-same")
        # every retained step holds the solver state of that iteration
        n_steps = 0
        if f > 0 and os.path.isdir(D):
            ckpt.wait(s)
            first_call = {}
            for entry in log:
                first_call.setdefault(entry["step"], entry)
            last_call = {e["step"]: e for e in log}
            for k in ckpt.listing(D) or []:
                if has_cfg:
                    r = target.call(f"restore(step={k})", cls.restore, D, step=k,
                                    new_checkpoint_dir=os.path.join(base, f"r{k}"), checkpoint_frequency=1)
                else:
                    r = target.make_solver(sv, problem, **{**kw, "checkpoint_dir": os.path.join(base, f"r{k}")})
                    target.call(f"load_checkpoint(step={k})", r.load_checkpoint, D, step=k)
                sig = ckpt.state_sig(sv, r.solver_state)
                if sig["iteration"] != k and not (f8 is not None and k <= f8):
                    return dict(status="violation", kind="content",
                                detail=f"{sv}: retained step {k} restores as iteration {sig['iteration']}")
                cands = [first_call.get(k), last_call.get(k)]
                if not any(c is not None and {kk: vv for kk, vv in c.items() if kk != "step"} == sig for c in cands):
                    if f8 is not None and k <= f8:
                        continue   # content of steps at or below the overwritten range is part of the known finding
                    return dict(status="violation", kind="content",
                                detail=f"{sv}: step {k} restored as iteration {sig['iteration']} with state != the state held at "
                                       f"save({k}) (saved {first_call.get(k)}, restored {sig})")
                ckpt.wait(r)
                n_steps += 1
        if n_list == 0:
            return dict(status="skip", reason="no_listing_compared")
        return dict(status="ok", n_obs=n_list, steps_restored=n_steps, multi=len([o for o in case["ops"] if o[0] == "solve"]) > 1,
                    restores=sorted(h_ for h_ in hclass if h_.startswith("restore")),
                    cls=[sv, f"f{case['f']}", f"m{case['m']}", "async" if case["asyn"] else "sync", sorted(hclass),
                         "config" if has_cfg else "no-config"])
    finally:
        os.chdir(cwd0)
        shutil.rmtree(base, ignore_errors=True)


def aggregate(records, cases):
    ok = [r for r in records if r["status"] == "ok"]
    return dict(listings_compared=sum(r["n_obs"] for r in ok), steps_restored=sum(r["steps_restored"] for r in ok),
                multi_call_histories=sum(1 for r in ok if r["multi"]),
                histories_with_restore=sum(1 for r in ok if r["restores"]),
                f0_cases=sum(1 for r in ok if "f0" in r["cls"][4]))


def coverage_check(records, cases, tier):
    a = aggregate(records, cases)
    k = 1 if tier == "quick" else 8
    if a["multi_call_histories"] < 10 * k:
        return "too few multi-call histories"
    if a["histories_with_restore"] < 5 * k:
        return "too few histories with a restore"
    if a["f0_cases"] < 2:
        return "frequency 0 not exercised"
    if a["steps_restored"] < 80 * k:
        return f"only {a['steps_restored']} retained steps restored and compared"
    return None
