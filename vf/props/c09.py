"""C09 - interrupt-and-resume at any iteration equals an uninterrupted run.

Monitor shape: fault enumeration over interruption points, each leg in a *fresh process*:
uninterrupted checkpoint-free reference | run k sweeps with checkpointing, wait, exit | new
process: restore() (or load_checkpoint()) from the directory alone and continue.  The final
SolverState leaves of the resumed run must be bit-identical to the reference; the state at k of
the checkpointing run must equal the reference trajectory at k (checkpointing changes nothing).
"""

import json
import os
import shutil
import subprocess
import sys

import numpy as np

from vf import gen


def ckpt_variant(sv, rng, idx=None):
    from vf import ckpt

    return ckpt.variant_kw(sv, rng, idx)


LEVEL = "fault_enumeration"
TECHNIQUE = "graceful-interruption enumeration: every interruption iteration k (thorough) run as three fresh processes and compared bitwise with the uninterrupted run; chains of interruptions; construction-order probe"
RULE = ("cases = solver (vi, pi, rvi, periodic, semi-async fixed order) x problem (reduced shipped problems via restore(), "
        "config-less tabular via load_checkpoint()) x a chunk of interruption iterations k (thorough: every k from 1 to "
        "n_conv-1; quick: a stratified sample) x frequency in {1,3,k} x retention {1,3} x sync/async, plus chains of 2 "
        "interruptions, plus shuffled semi-async (bound only), plus one README-order probe per solver. n_obs = interruption "
        "points whose resumed final state was compared; distinct = distinct (solver, problem, k).")
ASSUMPTIONS = ["bitwise reproducibility across fresh processes on this platform (same device count, same construction order)",
               "the first leg waits for pending writes before exiting (graceful interruption; the ungraceful one is C11)",
               "deciding cases enable 64-bit mode before building the problem; the README-order probes (problem built "
               "first in every process) must agree too since the repair of the float32 initial values"]
MIN_DECIDING = {"quick": 12, "thorough": 40}
SHARD_TIMEOUT = {"quick": 3000, "thorough": 14000}
TARGET_SHARDS = {"quick": 64, "thorough": 160}

PROBLEMS = {
    "de_moor_a": dict(kind="shipped", name="de_moor", params=dict(max_order_quantity=3, max_demand=8)),
    "de_moor_b": dict(kind="shipped", name="de_moor", params=dict(max_order_quantity=2, max_demand=5, max_useful_life=3,
                                                                   lead_time=2, issue_policy="fifo")),
    "forest": dict(kind="shipped", name="forest", params=dict(S=8, r1=6.0, r2=3.0, p=0.15)),
    "mirjalili": dict(kind="shipped", name="mirjalili", params=dict(max_useful_life=2, max_order_quantity=3, max_demand=4,
                                                                     useful_life_at_arrival_distribution_c_0=[1.0],
                                                                     useful_life_at_arrival_distribution_c_1=[0.3])),
}
CAP = 60
# the sweep neighbour whose configuration a reused solver configuration object still carries (same shapes)
SWEEP = {"de_moor": dict(shortage_cost=9.0, demand_gamma_mean=2.5), "forest": dict(p=0.45, r1=9.0),
         "mirjalili": dict(shortage_cost=11.0, fixed_order_cost=1.0)}
EPS = {"vi": 0.3, "pi": 1e-3, "rvi": 1e-2, "per": 0.3, "sa": 0.3}


def _tab_problem(rng, sv):
    spec = gen.random_spec(rng, smin=6, smax=20, avg="unichain" if sv == "rvi" else None)
    spec["scale"] = 1.0
    return dict(kind="gen", spec=spec)


def gen_cases(seed, tier):
    rng = np.random.default_rng([seed, 9])
    cases = []
    pnames = ["de_moor_a", "forest"] if tier == "quick" else ["de_moor_a", "de_moor_b", "forest", "mirjalili"]
    chunk = 3
    for sv in ["vi", "pi", "rvi", "per", "sa"]:
        for pi_, pn in enumerate(pnames + ["tabular"]):
            prob = PROBLEMS[pn] if pn != "tabular" else _tab_problem(rng, sv)
            vkw = ckpt_variant(sv, rng, pi_)
            if tier == "quick":
                # interruption points relative to the run length (resolved in the worker once the
                # uninterrupted run is known): the first sweep, a random interior point, the last but one
                ks_all = [["frac", 0.0], ["frac", float(rng.uniform(0.2, 0.8))], ["frac", 1.0]]
            else:
                ks_all = list(range(1, 41))
            if sv == "pi" and tier != "quick":
                ks_all = [1, 2, 3, 4, 5, 6]
            for i in range(0, len(ks_all), chunk):
                cases.append(dict(kind="resume", solver=sv, pname=pn, problem=prob, ks=ks_all[i:i + chunk],
                                  vkw=vkw,
                                  route="restore" if pn != "tabular" else "load_checkpoint",
                                  f=str(rng.choice(["1", "3", "k"])), m=int(rng.choice([1, 3])), asyn=bool(rng.integers(0, 2)),
                                  chain=bool(rng.random() < 0.35), devices=1))
        cases.append(dict(kind="readme-order", solver=sv, pname="de_moor_a", problem=PROBLEMS["de_moor_a"], devices=1))
    n_sh = 2 if tier == "quick" else 8
    for i in range(n_sh):
        cases.append(dict(kind="shuffled", solver="sa", pname="de_moor_a", problem=PROBLEMS["de_moor_a"],
                          k=int(rng.integers(2, 12)), random_seed=int(rng.integers(0, 1000)), devices=1))
    return cases


def leg(args, timeout=900):
    env = dict(os.environ)
    p = subprocess.run([sys.executable, "-m", "vf.legs", json.dumps(args)], env=env, capture_output=True, text=True, timeout=timeout)
    line = [l for l in p.stdout.splitlines() if l.startswith("RESULT ")]
    if not line:
        return None, p.stderr[-700:]
    return json.loads(line[0][7:]), None


def _cmp(a, b, keys=None):
    keys = keys or sorted(set(a) | set(b))
    return [k for k in keys if a.get(k) != b.get(k)]


def run_case(case):
    sv = case["solver"]
    base = os.path.abspath(f"c09_{case['case_id']}")
    shutil.rmtree(base, ignore_errors=True)
    os.makedirs(base)
    try:
        if case["kind"] == "resume":
            return _resume(case, sv, base)
        if case["kind"] == "readme-order":
            return _readme(case, sv, base)
        return _shuffled(case, base)
    finally:
        shutil.rmtree(base, ignore_errors=True)


def _kw(sv, extra=None, vkw=None):
    kw = dict(epsilon=EPS[sv])
    if vkw:
        kw.update(vkw)
    if extra:
        kw.update(extra)
    return kw


def _resume(case, sv, base):
    prob = case["problem"]
    vkw = case.get("vkw")
    ref, err = leg(dict(mode="ref", solver=sv, problem=prob, kw=_kw(sv, None, vkw), cap=CAP, trajectory=True))
    if ref is None:
        return dict(status="error", detail=f"reference leg failed: {err}")
    nconv = int(ref["final"]["iteration"])
    traj = {int(k): v for k, v in ref["trajectory"].items()}
    judged = []
    ks = []
    for k in case["ks"]:
        if isinstance(k, list):      # ["frac", x]: 1 + round(x * (nconv - 2)), i.e. 1 .. nconv-1
            k = 1 + int(round(k[1] * max(nconv - 2, 0)))
        if k not in ks:
            ks.append(k)
    for k in ks:
        if k >= nconv:
            continue   # at k = n_conv the run was not interrupted, it had finished
        f = k if case["f"] == "k" else int(case["f"])
        D = os.path.join(base, f"d{k}")
        ck = dict(checkpoint_frequency=f, max_checkpoints=case["m"], enable_async_checkpointing=case["asyn"])
        where = f"{sv} on {case['pname']} k={k} f={f} m={case['m']} async={case['asyn']} route={case['route']} options={vkw}"
        reuse = None
        if prob.get("kind") == "shipped" and (k + case["case_id"]) % 2:
            reuse = SWEEP[prob["name"]]
            where += " construction=reused-config-object+instance"
        first, err = leg(dict(mode="first", solver=sv, problem=prob, kw=_kw(sv, ck, vkw), k=k, dir=D, reuse_config=reuse))
        if first is None:
            return dict(status="violation", kind="first-leg-crash", detail=f"{where}: checkpointed run failed: {err}")
        d = _cmp(first["at_k"], traj[k])
        if d:
            return dict(status="violation", kind="checkpointing-changes-results",
                        detail=f"{where}: state after {k} iterations with checkpointing differs from the checkpoint-free run in {d}")
        if not first["listing"] or first["listing"][-1] != k:
            return dict(status="violation", kind="no-final-checkpoint",
                        detail=f"{where}: directory holds {first['listing']} after solve({k}) returned")
        rargs = dict(mode="resume", solver=sv, problem=prob, kw=_kw(sv, ck, vkw), dir=D, cap=CAP, route=case["route"])
        if case["route"] == "load_checkpoint":
            rargs["new_dir"] = os.path.join(base, f"n{k}")
        chain = case["chain"] and (nconv - k) >= 3
        if chain:
            k2 = max(1, (nconv - k) // 2)
            mid, err = leg(dict(rargs, n=k2))
            if mid is None:
                return dict(status="violation", kind="resume-crash", detail=f"{where}: resume leg failed: {err}")
            d = _cmp(mid["restored"], traj[k])
            if d:
                return dict(status="violation", kind="restored-state", detail=f"{where}: restored state differs from iteration {k} in {d}")
            if case["route"] == "load_checkpoint":
                rargs["dir"] = rargs["new_dir"]
                rargs["new_dir"] = os.path.join(base, f"n{k}b")
        res, err = leg(rargs)
        if res is None:
            return dict(status="violation", kind="resume-crash", detail=f"{where}: resume leg failed: {err}")
        if not chain:
            d = _cmp(res["restored"], traj[k])
            if d:
                return dict(status="violation", kind="restored-state", detail=f"{where}: restored state differs from iteration {k} in {d}")
        if res["final"] is None:
            return dict(status="error", detail=f"{where}: harness: nothing left to run")
        d = _cmp(res["final"], ref["final"])
        if d:
            return dict(status="violation", kind="resume-differs",
                        detail=f"{where}{' (chain of 2 interruptions)' if chain else ''}: resumed run ends at iteration "
                               f"{res['final']['iteration']} vs {ref['final']['iteration']} uninterrupted; leaves that differ: {d}")
        judged.append((k, chain))
    if not judged:
        return dict(status="skip", reason="all_k_beyond_convergence")
    return dict(status="ok", n_obs=len(judged), chains=sum(1 for _, c in judged if c), nconv=nconv,
                distinct=len(judged), cls=[sv, case["pname"], [k for k, _ in judged]], solver=sv)


def _readme(case, sv, base):
    prob = case["problem"]
    k = 3 if sv != "pi" else 2
    D = os.path.join(base, "d")
    ck = dict(checkpoint_frequency=1, max_checkpoints=2, enable_async_checkpointing=False)
    ref, err = leg(dict(mode="ref", solver=sv, problem=prob, kw=_kw(sv), cap=CAP, x64first=False))
    first, err2 = leg(dict(mode="first", solver=sv, problem=prob, kw=_kw(sv, ck), k=k, dir=D, x64first=False))
    if ref is None or first is None:
        return dict(status="violation", kind="readme-order-crash", detail=f"{sv}: README-order run failed: {err or err2}")
    res, err = leg(dict(mode="resume", solver=sv, problem=prob, kw=_kw(sv, ck), dir=D, cap=CAP, x64first=False))
    if res is None:
        return dict(status="violation", kind="readme-order-crash", detail=f"{sv}: README-order resume failed: {err}")
    d = _cmp(res["final"], ref["final"])
    cls = ["readme-order", sv]
    if not d:
        return dict(status="ok", n_obs=1, distinct=1, cls=cls, solver=sv)
    detail = (f"{sv}: problem built before the solver (README order) in every process: resumed run differs from the uninterrupted "
              f"one in {d}; uninterrupted dtype {ref['final']['dtype']}, restored dtype {res['restored_dtype']}")
    # (until the repair recorded in known_findings.txt this was a known finding: the uninterrupted run iterated in
    # float32 from float32 initial values while the restored run held float64 values; a return is a violation)
    return dict(status="violation", kind="readme-order", detail=detail)


def _shuffled(case, base):
    """With state shuffling the resumed run must still converge to a solution within the error bound."""
    from vf import common, refmdp, target

    prob = case["problem"]
    eps, g = 1e-3, 0.9
    problem, nxt, rew, pr, scale, *_ = common.build_problem(prob)
    P, R = refmdp.tables(nxt, rew, pr)
    vs = refmdp.vstar(P, R, g)[0]
    kw = dict(epsilon=eps, gamma=g, convergence_test="max_diff", shuffle_states=True, random_seed=case["random_seed"],
              max_batch_size=7, checkpoint_frequency=2, max_checkpoints=2)
    D = os.path.join(base, "d")
    first, err = leg(dict(mode="first", solver="sa", problem=prob, kw=kw, k=case["k"], dir=D))
    if first is None:
        return dict(status="violation", kind="first-leg-crash", detail=f"shuffled semi-async checkpointed run failed: {err}")
    res, err = leg(dict(mode="resume", solver="sa", problem=prob, kw=kw, dir=D, cap=3000, values=True))
    if res is None:
        return dict(status="violation", kind="resume-crash", detail=f"shuffled semi-async resume failed: {err}")
    if res["final"]["iteration"] >= 3000:
        return dict(status="skip", reason="not_converged")
    v = np.asarray(res["values"])
    pidx = target.policy_indices(np.asarray(res["policy_rows"]), np.asarray(problem.action_space))
    gap = float(np.max(vs - refmdp.evalpi(P, R, pidx, g)))
    verr = float(np.abs(v - vs).max())
    slack = 1e-9 * (1 + np.abs(vs).max())
    if verr > eps + slack or gap > 2 * g * eps / (1 - g) + slack:
        return dict(status="violation", kind="shuffled-resume-bound",
                    detail=f"shuffled semi-async resumed at k={case['k']}: |V-v*|={verr:.4g} (bound {eps}), policy gap {gap:.4g}")
    return dict(status="ok", n_obs=1, distinct=1, cls=["shuffled", "sa", case["k"]], solver="sa")


def aggregate(records, cases):
    ok = [r for r in records if r["status"] == "ok"]
    per = {}
    for r in ok:
        if r["cls"][0] in ("vi", "pi", "rvi", "per", "sa"):
            per[r["cls"][0]] = per.get(r["cls"][0], 0) + r["n_obs"]
    return dict(interruption_points_per_solver=per, chains=sum(r.get("chains", 0) for r in ok),
                convergence_iterations={f"{r['cls'][0]}/{r['cls'][1]}": r["nconv"] for r in ok if "nconv" in r})


def coverage_check(records, cases, tier):
    per = aggregate(records, cases)["interruption_points_per_solver"]
    for sv in ("vi", "pi", "rvi", "per", "sa"):
        # policy iteration converges within 3-6 iterations on these problems: the number of interruption points that
        # exist (k < n_conv) is small whatever the harness does (seed 2 offered 11 over five problems)
        need = 3 if tier == "quick" else (6 if sv == "pi" else 12)
        if per.get(sv, 0) < need:
            return f"only {per.get(sv, 0)} interruption points judged for {sv} (< {need})"
    return None
