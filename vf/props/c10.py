"""C10 - restore()/load_checkpoint() reproduce the saved solver exactly and completely.

Monitor shape: history + oracle at the public boundary.  The saving solver's public save() is
wrapped to snapshot what it holds at every save call; each retained step (latest by default, and
every explicit step) is then rebuilt with restore() / load_checkpoint() and compared leaf by leaf
(bitwise) with that snapshot, the configuration is compared by value, overrides are checked to
take effect without touching the original directory, and the documented error paths are driven.
"""

import os
import shutil

import numpy as np

from vf import gen, shipgen

LEVEL = "exploration"
TECHNIQUE = "save-boundary snapshot vs restored state (bitwise), configuration equality by value, directory digests before/after, error-path probes"
RULE = ("cases = solver (all five) x problem (four shipped problems with randomised valid parameters incl. tuple-valued ones | "
        "config-less tabular problem via load_checkpoint) x frequency/retention/async x override combination (new directory, "
        "frequency, retention, async) x error directories (no config, config but no step, half-deleted step). n_obs = restores "
        "compared; distinct = distinct (solver, problem, route, override class).")
ASSUMPTIONS = ["'what the solver held at the step' is observed by wrapping the public save() on the saving instance",
               "the VI-family policy leaf is an output, not runtime state (Orbax drops it for a None template); policy is compared "
               "only for PolicyIteration", "restores happen in the saving worker process but only from the directory path; "
               "fresh-process restores are C09/C11"]
MIN_DECIDING = {"quick": 60, "thorough": 500}
SHARD_TIMEOUT = {"quick": 2400, "thorough": 10000}
TARGET_SHARDS = {"quick": 48, "thorough": 96}


def gen_cases(seed, tier):
    rng = np.random.default_rng([seed, 10])
    n = 90 if tier == "quick" else 700
    cases = []
    names = ["forest", "de_moor", "hendrix", "mirjalili", "tabular"]
    for i in range(n):
        sv = ["vi", "pi", "rvi", "per", "sa"][i % 5]
        nm = names[(i // 5) % 5]
        c = dict(solver=sv, f=int(rng.choice([1, 2, 3])), m=int(rng.choice([2, 3, 5])), asyn=bool(rng.integers(0, 2)),
                 k=int(rng.integers(3, 14)), devices=1,     # run lengths on both sides of the 9 -> 10 digit boundary
                 ov=dict(newdir=bool(rng.random() < 0.7), f=[None, 1, 4, 0][int(rng.integers(0, 4))],      # None = no override; 0 = "continue without checkpointing"
                         m=int(rng.choice([0, 1, 4])) or None, asyn=[None, True, False][int(rng.integers(0, 3))]),
                 period=int(rng.integers(2, 5)), random_seed=int(rng.integers(0, 1000)), vkw=_variant(sv, rng),
                 errors=bool(i % 3 == 0), decoy=bool(i % 4 == 1))
        if nm == "tabular":
            spec = gen.random_spec(rng, smin=3, smax=20, avg="unichain" if sv == "rvi" else None)
            c.update(kind="gen", spec=spec)
        else:
            c.update(kind="shipped", name=nm, params=shipgen.draw(rng, nm, 20000))
        cases.append(c)
    return cases


def _variant(sv, rng):
    from vf import ckpt

    v = ckpt.variant_kw(sv, rng)
    v.pop("period", None)
    return v


def _norm(x):
    from vf.props.c20 import _norm as n

    return n(x)


def run_case(case):
    from vf import ckpt, common, target

    sv = case["solver"]
    cls = target.SOLVERS[sv]
    problem, nxt, rew, prob, scale, struct, iface, t = common.build_problem(case)
    has_cfg = case["kind"] == "shipped"
    base = os.path.abspath(f"c10_{case['case_id']}")
    shutil.rmtree(base, ignore_errors=True)
    os.makedirs(base)
    D = os.path.join(base, "orig")
    kw = dict(ckpt.SOLVER_KW[sv])
    if sv == "per":
        kw["period"] = case["period"]
        if kw.get("gamma") == 1.0 and kw["period"] < 2:
            kw["period"] = 2
    if sv == "sa":
        kw["random_seed"] = case["random_seed"]
    kw.update(case.get("vkw", {}))
    kw.update(epsilon=1e-9 * scale, checkpoint_dir=D, checkpoint_frequency=case["f"], max_checkpoints=case["m"],
              enable_async_checkpointing=case["asyn"])
    n_cmp = 0
    try:
        if has_cfg and case.get("decoy"):
            # the directory was used before by a differently parameterised solver (never solved): what
            # restore() rebuilds must be the solver that wrote the checkpoints, not the earlier one
            from vf import shipped as _sh

            dp = dict(case["params"])
            alt = shipgen.sibling(np.random.default_rng(case["case_id"] + 99), case["name"], dp, 10 ** 9)
            dkw = dict(kw)
            dkw.update(epsilon=kw["epsilon"] * 7.0, checkpoint_frequency=max(1, case["f"] % 3 + 1), max_checkpoints=case["m"] + 1)
            target.make_solver(sv, _sh.make(case["name"], alt), **dkw)
        s = target.make_solver(sv, problem, **kw)
        log = ckpt.wrap_save(s, sv, [])
        target.solve(s, case["k"])
        ckpt.wait(s)
        steps = ckpt.listing(D) or []
        if not steps:
            return dict(status="violation", kind="nothing-saved", detail=f"{sv}: no checkpoint in {D} after solve({case['k']})")
        snap = {}
        for e in log:
            snap.setdefault(e["step"], e)
        before = ckpt.dir_digest(D)
        cfg0 = _norm(s.config)
        ov = case["ov"]
        where = f"{sv} on {case.get('name', 'tabular')} f={case['f']} m={case['m']} async={case['asyn']}"
        # explicit steps first (each into its own new directory), the default (latest) restore with the
        # override combination last: restoring into the same directory legitimately rewrites its
        # config.yaml and continues saving there
        order = [(j + 1, st) for j, st in enumerate(steps)] + [(0, None)]
        for j, step in order:
            newD = os.path.join(base, f"new{j}") if (ov["newdir"] or j > 0) else None
            rkw = {}
            if j == 0:
                if ov["f"] is not None:
                    rkw["checkpoint_frequency"] = ov["f"]
                if ov["m"]:
                    rkw["max_checkpoints"] = ov["m"]
                if ov["asyn"] is not None:
                    rkw["enable_async_checkpointing"] = ov["asyn"]
            if has_cfg:
                r = target.call(f"restore(step={step}, new_dir={bool(newD)}, {rkw}) [{where}]", cls.restore, D, step=step,
                                new_checkpoint_dir=newD, **rkw)
                cfg = _norm(r.config)
                expect = dict(cfg0)
                if newD:
                    expect["checkpoint_dir"] = cfg["checkpoint_dir"] if str(cfg["checkpoint_dir"]) == newD else newD
                for k_, v_ in (("checkpoint_frequency", rkw.get("checkpoint_frequency")), ("max_checkpoints", rkw.get("max_checkpoints")),
                               ("enable_async_checkpointing", rkw.get("enable_async_checkpointing"))):
                    if v_ is not None:
                        expect[k_] = v_
                cmp_a = {k_: (str(v_) if k_ == "checkpoint_dir" else v_) for k_, v_ in cfg.items()}
                cmp_b = {k_: (str(v_) if k_ == "checkpoint_dir" else v_) for k_, v_ in expect.items()}
                if cmp_a != cmp_b:
                    diff = [k_ for k_ in cmp_b if cmp_a.get(k_) != cmp_b.get(k_)]
                    return dict(status="violation", kind="config",
                                detail=f"{where}: restored configuration differs in {diff}: restored "
                                       f"{ {k_: cmp_a.get(k_) for k_ in diff} }, original {{ {', '.join(f'{k_}: {cmp_b.get(k_)}' for k_ in diff)} }}")
                if rkw.get("checkpoint_frequency") == 0:
                    # checkpointing disabled: the solver has no directory, retention or mode to report
                    eff = want = (int(r.checkpoint_frequency),)
                    if eff != (0,):
                        return dict(status="violation", kind="override",
                                    detail=f"{where}: restore(checkpoint_frequency=0) left frequency {eff[0]} in effect")
                else:
                    eff = (int(r.checkpoint_frequency), int(r.max_checkpoints), bool(r.enable_async_checkpointing))
                    want = (rkw.get("checkpoint_frequency", case["f"]), rkw.get("max_checkpoints", case["m"]),
                            rkw.get("enable_async_checkpointing", case["asyn"]))
                if eff != want or (newD and rkw.get("checkpoint_frequency") != 0 and os.path.abspath(str(r.checkpoint_dir)) != newD):
                    return dict(status="violation", kind="override", detail=f"{where}: overrides {rkw}/new dir not in effect: {eff}, {r.checkpoint_dir}")
            else:
                kw2 = dict(kw)
                kw2["checkpoint_dir"] = newD or os.path.join(base, f"hand{j}")
                r = target.make_solver(sv, problem, **kw2)
                target.call(f"load_checkpoint(step={step}) [{where}]", r.load_checkpoint, D, step=step)
            sig = ckpt.state_sig(sv, r.solver_state)
            want_step = steps[-1] if step is None else step
            if sig["iteration"] != want_step:
                return dict(status="violation", kind="step-label",
                            detail=f"{where}: restore(step={step}) chose step {want_step} but the restored solver is at iteration {sig['iteration']}")
            exp = {k_: v_ for k_, v_ in snap[want_step].items() if k_ != "step"}
            if sig != exp:
                diff = [k_ for k_ in exp if sig.get(k_) != exp.get(k_)]
                return dict(status="violation", kind="state",
                            detail=f"{where}: restore(step={step}) -> iteration {sig['iteration']}; leaves {diff} differ from what the "
                                   f"solver held at save({want_step}): restored { {k_: sig.get(k_) for k_ in diff} } saved "
                                   f"{ {k_: exp.get(k_) for k_ in diff} }")
            if j == 0:
                # later saves follow the overrides and never touch the original directory
                rlog = ckpt.wrap_save(r, sv, [])
                target.solve(r, 2)
                ckpt.wait(r)
                if has_cfg and rkw.get("checkpoint_frequency") == 0:
                    # "0 to disable": the restored solver continues without checkpointing - the original directory keeps
                    # exactly the steps it had, whether or not a new directory was named
                    if (ckpt.listing(D) or []) != steps or (newD and (ckpt.listing(newD) or [])):
                        return dict(status="violation", kind="override",
                                    detail=f"{where}: restore(checkpoint_frequency=0) followed by solve(2) wrote checkpoints: original directory "
                                           f"{steps} -> {ckpt.listing(D)}, new directory {ckpt.listing(newD) if newD else None}")
                    n_cmp += 1
                    if newD and ckpt.dir_digest(D) != before:
                        return dict(status="violation", kind="original-dir-touched",
                                    detail=f"{where}: restoring with checkpoint_frequency=0 into a new directory changed files of the original directory")
                    continue
                if newD:
                    if not (ckpt.listing(newD) or []) and r.checkpoint_frequency <= 2:
                        return dict(status="violation", kind="override", detail=f"{where}: nothing saved to the new directory")
                # the directory the restored solver saves into is restored again, twice, with saves in
                # between: the default step must be the latest completed step every time
                X = os.path.abspath(str(r.checkpoint_dir))
                for rep in range(2):
                    want = {k_: v_ for k_, v_ in rlog[-1].items() if k_ != "step"}
                    if has_cfg:
                        r2 = target.call(f"re-restore #{rep + 1} of {X}", cls.restore, X,
                                         new_checkpoint_dir=os.path.join(base, f"again{rep}"), checkpoint_frequency=1000)
                    else:
                        r2 = target.make_solver(sv, problem, **{**kw, "checkpoint_dir": os.path.join(base, f"again{rep}")})
                        target.call(f"re-load_checkpoint #{rep + 1} of {X}", r2.load_checkpoint, X)
                    sig2 = ckpt.state_sig(sv, r2.solver_state)
                    if sig2 != want:
                        return dict(status="violation", kind="stale-latest",
                                    detail=f"{where}: after the restored solver saved up to iteration {want['iteration']} into {os.path.basename(X)}, "
                                           f"a default-step restore of that directory returned iteration {sig2['iteration']} "
                                           f"(restore #{rep + 1} of this directory in this process)")
                    ckpt.wait(r2)
                    n_cmp += 1
                    target.solve(r, 1)
                    ckpt.wait(r)
            ckpt.wait(r)
            n_cmp += 1
            if newD and ckpt.dir_digest(D) != before:
                return dict(status="violation", kind="original-dir-touched",
                            detail=f"{where}: restoring step {step} into a new directory changed files of the original directory")
        n_err = 0
        if case["errors"]:
            # no configuration file
            e1 = os.path.join(base, "noconfig")
            shutil.copytree(D, e1)
            if os.path.exists(os.path.join(e1, "config.yaml")):
                os.remove(os.path.join(e1, "config.yaml"))
            try:
                cls.restore(e1)
                return dict(status="violation", kind="error-path", detail=f"{where}: restore() of a directory without config.yaml returned a solver")
            except FileNotFoundError:
                n_err += 1
            except Exception as e:  # noqa: BLE001
                return dict(status="violation", kind="error-path", detail=f"{where}: missing config.yaml -> {type(e).__name__} instead of FileNotFoundError: {str(e)[:150]}")
            # configuration but no completed checkpoint
            e2 = os.path.join(base, "nostep")
            os.makedirs(e2)
            if has_cfg:
                shutil.copy(os.path.join(D, "config.yaml"), os.path.join(e2, "config.yaml"))
                os.makedirs(os.path.join(e2, "7.orbax-checkpoint-tmp-123"))   # an uncommitted left-over is not a checkpoint
                try:
                    cls.restore(e2, new_checkpoint_dir=os.path.join(base, "nostep_new"))
                    return dict(status="violation", kind="error-path", detail=f"{where}: restore() of a directory without any completed step returned a solver")
                except ValueError as e:
                    if "No checkpoints found" not in str(e):
                        return dict(status="violation", kind="error-path", detail=f"{where}: no step -> ValueError without the documented text: {str(e)[:150]}")
                    n_err += 1
                except Exception as e:  # noqa: BLE001
                    return dict(status="violation", kind="error-path", detail=f"{where}: no completed step -> {type(e).__name__}: {str(e)[:150]}")
            else:
                r = target.make_solver(sv, problem, **{**kw, "checkpoint_dir": os.path.join(base, "hand_err")})
                try:
                    r.load_checkpoint(e2)
                    return dict(status="violation", kind="error-path", detail=f"{where}: load_checkpoint() of an empty directory returned")
                except ValueError as e:
                    if "No checkpoints found" not in str(e):
                        return dict(status="violation", kind="error-path", detail=f"{where}: ValueError without the documented text: {str(e)[:150]}")
                    n_err += 1
                except Exception as e:  # noqa: BLE001
                    return dict(status="violation", kind="error-path", detail=f"{where}: empty directory -> {type(e).__name__}: {str(e)[:150]}")
        if case["errors"] and steps:
            # an explicitly chosen step for which no completed checkpoint exists (beyond the run, or pruned / never
            # saved between two retained steps): anything but that step's state is wrong - the call must fail
            now = ckpt.listing(D) or []
            missing = [max(now) + 1] + [k_ for k_ in range(min(now) + 1, max(now)) if k_ not in now][:1]
            for ms in missing:
                try:
                    if has_cfg:
                        rr = cls.restore(D, step=ms, new_checkpoint_dir=os.path.join(base, f"missing{ms}"))
                    else:
                        rr = target.make_solver(sv, problem, **{**kw, "checkpoint_dir": os.path.join(base, f"missing{ms}")})
                        rr.load_checkpoint(D, step=ms)
                except Exception:  # noqa: BLE001  (the documented behaviour is an error; its type is the checkpoint library's)
                    n_err += 1
                    continue
                return dict(status="violation", kind="missing-step",
                            detail=f"{where}: step {ms} was requested explicitly, the directory holds {now}: instead of failing, the call "
                                   f"returned a solver at iteration {int(rr.iteration)}")
        ovc = "+".join(k_ for k_ in ("newdir", "f", "m") if case["ov"][k_]) + ("+async" if case["ov"]["asyn"] is not None else "")
        return dict(status="ok", n_obs=n_cmp, error_paths=n_err,
                    cls=[sv, case.get("name", "tabular"), "restore" if has_cfg else "load_checkpoint", ovc or "none"])
    finally:
        shutil.rmtree(base, ignore_errors=True)


def aggregate(records, cases):
    ok = [r for r in records if r["status"] == "ok"]
    pairs = sorted({f"{r['cls'][0]}x{r['cls'][1]}" for r in ok})
    return dict(restores_compared=sum(r["n_obs"] for r in ok), error_paths_driven=sum(r["error_paths"] for r in ok),
                solver_problem_pairs=len(pairs))


def coverage_check(records, cases, tier):
    a = aggregate(records, cases)
    if a["solver_problem_pairs"] < 25:
        return f"only {a['solver_problem_pairs']} of 25 solver x problem pairs"
    if a["restores_compared"] < (150 if tier == "quick" else 1500):
        return f"only {a['restores_compared']} restores compared"
    if a["error_paths_driven"] < (20 if tier == "quick" else 200):
        return "too few error-path probes"
    return None
