"""C04 - relative value iteration reports the optimal average reward within epsilon.

Monitor shape: reference model.  Converged RelativeValueIteration runs on generated unichain
aperiodic MDPs are judged against the optimal gain (average-reward policy iteration, cross-checked
by a linear program), the exact gain of the returned policy, the optimality-equation residual at
the returned (values, gain), and bounded drift under 50 further sweeps.
"""

import numpy as np

from vf import common, gen, refmdp, shipped

SIBLING_EVERY = 3      # every n-th case is followed by a same-shape sibling problem/solver in the same process (vf/worker.py)
LEVEL = "exploration"
TECHNIQUE = "reference-model oracle: LP / policy-iteration optimal gain, stationary gain of the returned policy, optimality-equation residual, bounded-drift continuation"
RULE = ("cases = unichain aperiodic generated MDPs (every state-action reaches a hub state with probability "
        "delta in {.3,.05,.01}; dense/sparse/absorbing/unreachable(transient)/duplicate/tie structures; vector "
        "interface classes) x epsilon in [1e-6,1e-1]*scale x initial values (zero/const/random/far) x batch size "
        "x devices, plus reduced shipped problems when they are unichain. Deciding = converged before the cap "
        "and LP gain == policy-iteration gain. distinct = distinct (structure, delta, init class, epsilon "
        "bucket, partition class, first-sweep?); non-trivial = >=2 actions with different gains available.")
ASSUMPTIONS = ["unichain + aperiodic by construction of the generator", "scipy HiGHS LP and numpy linear solves",
               "drift restated as bounded progress over 50 further sweeps: <= 3*50*eps"]
MIN_DECIDING = {"quick": 100, "thorough": 1000}
SHARD_TIMEOUT = {"quick": 1800, "thorough": 9000}
M_DRIFT = 50


def gen_cases(seed, tier):
    rng = np.random.default_rng([seed, 4])
    n = 170 if tier == "quick" else 1700
    devs = [1, 1, 1, 2, 3] if tier == "quick" else [1, 1, 1, 2, 3, 4]
    cases = []
    for i in range(n):
        spec = gen.random_spec(rng, smin=3, smax=40, avg="unichain")
        eps = float(spec["scale"] * 10.0 ** rng.uniform(-9, -1))
        chunks = [int(x) for x in rng.integers(1, 16, size=40)] if rng.random() < 0.5 else None
        cases.append(dict(kind="gen", spec=spec, epsilon=eps, eps_rel=eps / spec["scale"], chunks=chunks,
                          max_batch_size=common.batch_choices(rng, spec["S"]), devices=int(rng.choice(devs)),
                          warm=bool(rng.random() < 0.15)))
    for name, params in shipped.SMALL:
        if name == "hendrix":
            continue  # truncated (sub-stochastic) tables: average-reward theory does not apply (C13)
        cases.append(dict(kind="shipped", name=name, params=params, epsilon=float(10.0 ** rng.uniform(-5, -2)),
                          eps_rel=1e-3, max_batch_size=int(rng.choice([7, 64, 1024])), devices=1, warm=False))
    return cases


def run_case(case):
    from vf import target

    warm = bool(case.get("warm")) and case["kind"] == "gen"
    if warm:
        # warm start through the problem's own initial_value: the exact bias of an optimal policy
        # shifted by a constant (i.e. a previous solution) - converges on the first sweep
        from vf import tabular

        spec = case["spec"]
        t = gen.build(spec)
        P, R = refmdp.tables(t["nxt"], t["rew"], t["prob"])
        try:
            _, h0, _ = refmdp.avg_pi(P, R)
        except Exception:  # noqa: BLE001
            return dict(status="skip", reason="reference_not_unichain")
        t["init"] = h0 + 5.0 * spec["scale"]
        problem = target.call("construct problem", tabular.make, spec, t)
        nxt, rew, prob, scale = t["nxt"], t["rew"], t["prob"], float(spec["scale"])
        struct, iface = spec["structure"], list(gen.interface_class(spec, t))
    else:
        problem, nxt, rew, prob, scale, struct, iface, t = common.build_problem(case)
    P, R = refmdp.tables(nxt, rew, prob)
    S, A = R.shape
    eps = case["epsilon"]
    try:
        g1, h, pi_star = refmdp.avg_pi(P, R)
        g2 = refmdp.lp_gain(P, R)
    except Exception:  # noqa: BLE001  (singular: not unichain)
        return dict(status="skip", reason="reference_not_unichain")
    if g2 is None or abs(g1 - g2) > 1e-8 * (1 + abs(g1) + scale):
        return dict(status="skip", reason="ill_conditioned_gain")
    s = target.make_solver("rvi", problem, epsilon=eps, max_batch_size=case["max_batch_size"])
    shape, n_pad, part = common.partition_class(s)
    v0 = target.np_values(s.values)
    cap = 20000
    # half of the cases reach convergence through a history of several solve() calls
    chunks = case.get("chunks") or []
    res = None
    n_calls = 0
    for k in chunks:
        it0 = int(s.iteration)
        res = target.solve(s, int(k))
        n_calls += 1
        if int(res.info.iteration) - it0 < int(k):
            break          # this call reported convergence
    else:
        it0 = int(s.iteration)
        res = target.solve(s, cap)
        n_calls += 1
        if int(res.info.iteration) - it0 >= cap:
            return dict(status="skip", reason="not_converged")
    it = int(res.info.iteration)
    def judge(res):
        v = target.np_values(res.values)
        gain = float(np.asarray(res.info.gain))
        slack = 1e-11 * (abs(g1) + scale + float(np.abs(v).max()))   # relative: epsilon goes down to 1e-9*scale
        fails = []
        if not abs(gain - g1) <= eps + slack:
            fails.append(f"|reported gain {gain:.9g} - g* {g1:.9g}| = {abs(gain - g1):.4g} > eps {eps:.4g}")
        pidx = target.policy_indices(res.policy, np.asarray(problem.action_space))
        if (pidx < 0).any() or len(pidx) != S:
            return None, None, None, None, None, ["policy row outside the action space"]
        try:
            gp, _ = refmdp.avg_eval(P, R, pidx)
        except Exception:  # noqa: BLE001
            return v, gain, None, None, slack, None
        if not g1 - gp <= eps + slack:
            fails.append(f"gain of returned policy {gp:.9g} is {g1 - gp:.4g} below optimal (> eps {eps:.4g})")
        resid = float(np.abs((R + P @ v).max(1) - v - gain).max())
        if not resid <= eps + slack:
            fails.append(f"optimality-equation residual {resid:.4g} > eps {eps:.4g}")
        return v, gain, gp, resid, slack, fails

    v, gain, gp, resid, slack, fails = judge(res)
    if fails is None:
        return dict(status="skip", reason="returned_policy_not_unichain")
    if v is None:
        return dict(status="violation", kind="policy-row", detail=fails[0])
    if warm:
        first = "warm"
    else:
        first = "sweep1" if it == 1 else "later"
    base = dict(iteration=it, gain_ratio=abs(gain - g1) / eps, policy_ratio=max(g1 - gp, 0.0) / eps,
                resid_ratio=resid / eps, batch_shape=list(shape), n_pad=n_pad)
    if fails:
        return dict(status="violation", kind="gain",
                    detail=f"rvi eps={eps:.6g} it={it} calls={n_calls} history={chunks or 'single call'} init={case.get('spec', {}).get('init')} warm={case.get('warm')} "
                           f"v0[last]={v0[-1]:.6g}: " + "; ".join(fails), **base)
    # calling solve() again on the converged solver reports convergence again (one further sweep):
    # the same guarantees must hold for that report
    it0 = int(s.iteration)
    res2 = target.solve(s, 5)
    reentry = None
    if int(res2.info.iteration) - it0 < 5:
        v2, gain2, gp2, resid2, slack2, fails2 = judge(res2)
        if fails2:
            return dict(status="violation", kind="gain-after-reentry",
                        detail=f"rvi eps={eps:.6g}: solve() called again on the converged solver (iteration {it} -> "
                               f"{int(res2.info.iteration)}, history {chunks or 'single call'}) reported convergence with: " + "; ".join(fails2), **base)
        reentry = abs(gain2 - g1) / eps if gain2 is not None else None
        v = v2 if v2 is not None else v
    # bounded drift under continuation
    before = float(np.abs(v).max())
    for _ in range(M_DRIFT):
        target.solve(s, 1)
    after = float(np.abs(target.np_values(s.values)).max())
    drift = abs(after - before)
    if not drift <= 3 * M_DRIFT * eps + slack:
        return dict(status="violation", kind="drift",
                    detail=f"relative values drifted by {drift:.6g} over {M_DRIFT} further sweeps "
                           f"(allowed {3 * M_DRIFT * eps:.6g}; g*={g1:.6g})", **base)
    Qh = R + P @ h
    nontrivial = bool((Qh.max(1) - Qh.min(1)).max() > 1e-6 * scale)
    return dict(status="ok", nontrivial=nontrivial, drift_ratio=drift / (3 * M_DRIFT * eps), solve_calls=n_calls,
                reentry_gain_ratio=reentry,
                cls=[struct, f"delta={case.get('spec', {}).get('delta')}", case.get("spec", {}).get("init", "shipped"),
                     gen.eps_bucket(case["eps_rel"]), part, first], **base)


def aggregate(records, cases):
    ok = [r for r in records if r["status"] == "ok"]
    w = lambda k: max((r[k] for r in ok), default=None)  # noqa: E731
    return dict(worst_gain_ratio=w("gain_ratio"), worst_policy_ratio=w("policy_ratio"),
                worst_residual_ratio=w("resid_ratio"), worst_drift_ratio=w("drift_ratio"),
                first_sweep_convergences=sum(1 for r in ok if r["cls"][5] in ("sweep1", "warm")),
                multi_call_runs=sum(1 for r in ok if r.get("solve_calls", 1) > 1),
                reentry_reports_judged=sum(1 for r in ok if r.get("reentry_gain_ratio") is not None),
                nonzero_init_runs=sum(1 for r in ok if r["cls"][2] in ("const", "random", "far")))


def coverage_check(records, cases, tier):
    a = aggregate(records, cases)
    if a["nonzero_init_runs"] < (20 if tier == "quick" else 200):
        return f"only {a['nonzero_init_runs']} runs from non-zero initial values"
    if a["first_sweep_convergences"] < (5 if tier == "quick" else 50):
        return f"only {a['first_sweep_convergences']} runs converging on the first sweep / warm start"
    return None
