"""C18 - batching places every state exactly once and round-trips losslessly.

Monitor shape: invariant at a hook (icontract class invariant + postcondition on the real
BatchProcessor) plus an explicit layout oracle, driven over the *complete* bounded box
n_states 1..260 x max_batch_size {1..70,127,128,129,1024} x devices 1..8.
"""

import numpy as np

LEVEL = "exploration"
TECHNIQUE = "runtime contracts (icontract invariant/postcondition on BatchProcessor) + layout oracle, exhaustive over a bounded box"
EXHAUSTIVE = True
COUNT_OBS_AS_EVALUATIONS = True
RULE = ("complete enumeration of (n_states 1..260, max_batch_size in {1..70,127,128,129,1024}, "
        "devices 1..8): arithmetic contract on every triple; layout (states in order then padding "
        "only) and unbatch round trip with trailing shapes (), (3,), (2,2) on every triple in the "
        "systematic subsample (thorough: 1-in-2 plus every corner triple; quick: 1-in-60 plus 1-in-16 "
        "of the corner triples; corner = n<devices, n_pad==0 on >1 device, max_batch_size 1, prime n). evaluations = triples; "
        "distinct_nontrivial = triples with padding, more than one batch or more than one device. "
        "pmap_device_count=None is checked against len(jax.devices()) under 1 and 4 emulated devices.")
ASSUMPTIONS = ["the box is bounded; nothing is claimed outside it",
               "no assumption on the minimum batch size or on minimal padding",
               "layout compared on host copies of the jax arrays"]
MIN_DECIDING = {"quick": 30, "thorough": 30}
SHARD_TIMEOUT = {"quick": 1800, "thorough": 7200}

MB = list(range(1, 71)) + [127, 128, 129, 1024]
PRIMES = {2, 3, 5, 7, 11, 13, 17, 19, 23, 29, 31, 37, 41, 43, 47, 53, 59, 61, 67, 71, 73, 79, 83, 89,
          97, 101, 103, 107, 109, 113, 127, 131, 137, 139, 149, 151, 157, 163, 167, 173, 179, 181,
          191, 193, 197, 199, 211, 223, 227, 229, 233, 239, 241, 251, 257}


def gen_cases(seed, tier):
    cases = []
    step = 8
    for lo in range(1, 261, step):
        cases.append(dict(kind="box", n_lo=lo, n_hi=min(lo + step - 1, 260),
                          stride=4 if tier == "thorough" else 60, cstride=3 if tier == "thorough" else 16,
                          offset=int(seed) % 60, devices=1, extras_every=1 if tier == "quick" else 3))
    # a sparse sample far outside the box (large state counts / batch sizes): arithmetic on all, layout on the smaller ones
    cases.append(dict(kind="large", devices=1))
    cases.append(dict(kind="devcount", devices=1))
    cases.append(dict(kind="devcount", devices=4))
    # the same box in workers that HAVE 8 (4) devices: an explicitly requested device count below / above the available one
    for lo, dv in ((1, 8), (60, 8), (125, 8), (250, 8), (33, 4), (190, 4)):
        cases.append(dict(kind="box", n_lo=lo, n_hi=lo + step - 1, stride=4 if tier == "thorough" else 60,
                          cstride=3 if tier == "thorough" else 16, offset=int(seed) % 60, devices=dv,
                          extras_every=1 if tier == "quick" else 3))
    return cases


def run_case(case):
    import jax
    import jax.numpy as jnp
    from loguru import logger

    from vf import contracts, target

    logger.remove()
    contracts.apply()
    from mdpax.utils.batch_processing import BatchProcessor

    if case["kind"] == "devcount":
        n_dev = len(jax.devices())
        if n_dev != case["devices"]:
            return dict(status="error", detail=f"harness: expected {case['devices']} emulated devices, got {n_dev}")
        for n in (1, 3, 64, 130):
            bp = target.call("BatchProcessor(None)", BatchProcessor, n_states=n, state_dim=1, max_batch_size=64)
            if bp.n_devices != n_dev:
                return dict(status="violation", kind="device-count",
                            detail=f"pmap_device_count=None gave n_devices={bp.n_devices}, available {n_dev}")
        return dict(status="ok", n_obs=4, distinct=1 if n_dev > 1 else 0, cls=["devcount", n_dev])

    if case["kind"] == "large":
        import itertools

        n_l = 0
        for n, mb, d in itertools.product([261, 1000, 1023, 1024, 1025, 4096, 5000, 65537, 100003, 1000003],
                                          [1, 63, 64, 65, 1000, 1024, 5000, 100000], range(1, 9)):
            if n // max(mb, 1) > 200000:
                continue
            bp = target.call(f"BatchProcessor({n},{mb},{d})", BatchProcessor, n_states=n, state_dim=1, max_batch_size=mb,
                             pmap_device_count=d)
            D, B, bs, pad = bp.n_devices, bp.n_batches, bp.batch_size, bp.n_pad
            if D != d or not (1 <= bs <= mb) or B < 1 or pad < 0 or D * B * bs != n + pad:
                return dict(status="violation", kind="arithmetic",
                            detail=f"n_states={n} max_batch_size={mb} devices={d}: devices={D} batches={B} batch_size={bs} padding={pad}")
            if n <= 5000:
                states = np.arange(1, n + 1, dtype=np.int32).reshape(n, 1)
                flat = np.asarray(bp.prepare_batches(jnp.asarray(states))).reshape(-1)
                out = np.asarray(bp.unbatch_results(jnp.asarray(np.arange(D * B * bs, dtype=np.float64).reshape(D, B, bs))))
                if not (np.array_equal(flat[:n], states[:, 0]) and (flat[n:] == 0).all()) or not np.array_equal(out, np.arange(n)):
                    return dict(status="violation", kind="layout", detail=f"n_states={n} max_batch_size={mb} devices={d}: layout / round trip wrong")
            n_l += 1
        return dict(status="ok", n_obs=0, distinct=0, large_triples=n_l, cls=["large", n_l])

    n_tri = n_layout = n_nontriv = 0
    k = kc = 0
    ev0 = contracts.COUNTS.get("BatchProcessor.invariant", 0)
    for n in range(case["n_lo"], case["n_hi"] + 1):
        for mb in MB:
            for d in range(1, 9):
                k += 1
                try:
                    bp = BatchProcessor(n_states=n, state_dim=2, max_batch_size=mb, pmap_device_count=d)
                except contracts.ContractBroken as e:
                    return dict(status="violation", kind="contract", detail=str(e) + f" (max_batch_size={mb})")
                except Exception as e:  # noqa: BLE001
                    return dict(status="violation", kind="target-exception",
                                detail=f"BatchProcessor({n},{mb},{d}) raised {type(e).__name__}: {e}")
                D, B, bs, pad = bp.n_devices, bp.n_batches, bp.batch_size, bp.n_pad
                bad = None
                if D != d:
                    bad = f"n_devices {D} != requested {d}"
                elif not (1 <= bs <= mb):
                    bad = f"batch_size {bs} outside [1,{mb}]"
                elif B < 1 or pad < 0 or D * B * bs != n + pad:
                    bad = f"slots {D}*{B}*{bs} != states {n} + padding {pad}"
                elif tuple(bp.batch_shape) != (D, B, bs):
                    bad = f"batch_shape {bp.batch_shape} != {(D, B, bs)}"
                if bad:
                    return dict(status="violation", kind="arithmetic",
                                detail=f"n_states={n} max_batch_size={mb} devices={d}: {bad}")
                n_tri += 1
                if pad > 0 or B > 1 or D > 1:
                    n_nontriv += 1
                corner = (n < d) or (pad == 0 and d > 1) or mb == 1 or (n in PRIMES and mb in (1, 2, 64, 1024))
                if corner:
                    kc += 1
                if not ((corner and (kc + case["offset"]) % case["cstride"] == 0)
                        or (k + case["offset"]) % case["stride"] == 0):
                    continue
                # ---- layout: states in order, then padding only
                states = np.arange(1, 2 * n + 1, dtype=np.int32).reshape(n, 2)
                try:
                    prep = np.asarray(bp.prepare_batches(jnp.asarray(states)))
                except Exception as e:  # noqa: BLE001
                    return dict(status="violation", kind="target-exception",
                                detail=f"prepare_batches n={n} mb={mb} d={d}: {type(e).__name__}: {e}")
                if prep.shape != (D, B, bs, 2):
                    return dict(status="violation", kind="layout",
                                detail=f"n={n} mb={mb} d={d}: prepared shape {prep.shape} != {(D, B, bs, 2)}")
                flat = prep.reshape(-1, 2)
                if not (np.array_equal(flat[:n], states) and (flat[n:] == 0).all()):
                    return dict(status="violation", kind="layout",
                                detail=f"n={n} mb={mb} d={d}: prepared layout is not 'states in order, then zeros'")
                extras = n_layout % int(case.get("extras_every", 1)) == 0
                # ---- the same processor used again with other state arrays (other contents, other dtypes)
                for alt in () if not extras else (states.astype(np.float64) + 0.125, (states.astype(np.int64) + 16777217).astype(np.int32),
                            states[::-1].copy(), (states % 2).astype(bool), states.astype(np.float32) / 8):
                    try:
                        p2 = np.asarray(bp.prepare_batches(jnp.asarray(alt)))
                    except Exception as e:  # noqa: BLE001
                        return dict(status="violation", kind="target-exception",
                                    detail=f"prepare_batches n={n} mb={mb} d={d} (repeated call, {alt.dtype} states): {type(e).__name__}: {e}")
                    f2 = p2.reshape(-1, 2)
                    if p2.dtype != alt.dtype or p2.shape != (D, B, bs, 2) or not np.array_equal(f2[:n], alt) or f2[n:].any():
                        return dict(status="violation", kind="layout",
                                    detail=f"n={n} mb={mb} d={d}: a repeated prepare_batches call on the same processor with "
                                           f"{alt.dtype} states is not 'these states in order, then zeros' (got dtype {p2.dtype}, first row {f2[0].tolist()} for {alt[0].tolist()})")
                # ---- unbatch round trip with trailing dims
                for trail in ((), (3,), (2, 2)):
                    tot = D * B * bs
                    width = int(np.prod(trail)) if trail else 1
                    src = (np.arange(tot * width, dtype=np.float64) + 1.0).reshape((D, B, bs) + trail)
                    try:
                        out = np.asarray(bp.unbatch_results(jnp.asarray(src)))
                    except contracts.ContractBroken as e:
                        return dict(status="violation", kind="contract", detail=str(e))
                    except Exception as e:  # noqa: BLE001
                        return dict(status="violation", kind="target-exception",
                                    detail=f"unbatch_results n={n} mb={mb} d={d} trail={trail}: {type(e).__name__}: {e}")
                    exp = src.reshape((tot,) + trail)[:n]
                    if out.shape != exp.shape or not np.array_equal(out, exp):
                        return dict(status="violation", kind="roundtrip",
                                    detail=f"n={n} mb={mb} d={d} trail={trail}: unbatch is not the identity on the first n rows")
                    if trail in ((), (3,)):
                        # integer (policy indices) and boolean results take the same route
                        for dt in (np.int32, np.bool_):
                            srci = (np.arange(tot * width).reshape((D, B, bs) + trail) % 7 if dt is np.int32
                                    else (np.arange(tot * width).reshape((D, B, bs) + trail) % 3 == 0)).astype(dt)
                            outi = np.asarray(bp.unbatch_results(jnp.asarray(srci)))
                            expi = srci.reshape((tot,) + trail)[:n]
                            if outi.dtype != expi.dtype or outi.shape != expi.shape or not np.array_equal(outi, expi):
                                return dict(status="violation", kind="roundtrip",
                                            detail=f"n={n} mb={mb} d={d} trail={trail} dtype={np.dtype(dt).name}: unbatch changed dtype/rows "
                                                   f"({outi.dtype}, {outi.shape})")
                # ---- the maximum batch size handed over as a NumPy integer (signed or unsigned) instead of a Python int
                for ty in () if not extras else (np.int64, np.uint8 if mb <= 255 else np.uint16, np.uint64):
                    try:
                        bq = BatchProcessor(n_states=n, state_dim=2, max_batch_size=ty(mb), pmap_device_count=d)
                        fig = (int(bq.n_devices), int(bq.n_batches), int(bq.batch_size), int(bq.n_pad))
                        src = (np.arange(D * B * bs, dtype=np.float64) + 1.0).reshape((D, B, bs))
                        outq = np.asarray(bq.unbatch_results(jnp.asarray(src)))
                        prq = np.asarray(bq.prepare_batches(jnp.asarray(states)))
                    except contracts.ContractBroken as e:
                        return dict(status="violation", kind="contract", detail=str(e) + f" (max_batch_size={ty.__name__}({mb}))")
                    except Exception as e:  # noqa: BLE001
                        return dict(status="violation", kind="target-exception",
                                    detail=f"n={n} d={d} max_batch_size={ty.__name__}({mb}): {type(e).__name__}: {str(e)[:150]}")
                    if fig != (D, B, bs, pad) or outq.shape != (n,) or not np.array_equal(outq, src.reshape(-1)[:n]) or not np.array_equal(prq, prep):
                        return dict(status="violation", kind="roundtrip",
                                    detail=f"n={n} d={d}: max_batch_size={ty.__name__}({mb}) gives (devices, batches, batch_size, padding) = {fig} "
                                           f"and {outq.shape[0]} un-batched rows; the Python int {mb} gives {(D, B, bs, pad)} and {n} rows")
                n_layout += 1
    n_inv = contracts.COUNTS.get("BatchProcessor.invariant", 0) - ev0
    if n_inv == 0:
        return dict(status="error", detail="contract never evaluated (decoration bypassed?)")
    if case["devices"] > 1:
        if len(jax.devices()) != case["devices"]:
            return dict(status="error", detail=f"harness: expected {case['devices']} emulated devices, got {len(jax.devices())}")
        # not part of the enumerated box (that is counted once, in the single-device workers)
        return dict(status="ok", n_obs=0, distinct=0, layouts=n_layout, invariant_evals=n_inv, triples_multi_device_worker=n_tri,
                    cls=[f"box-with-{case['devices']}-devices-available", case["n_lo"]])
    return dict(status="ok", n_obs=n_tri, distinct=n_nontriv, layouts=n_layout, invariant_evals=n_inv,
                cls=["box", case["n_lo"]])


def aggregate(records, cases):
    ok = [r for r in records if r["status"] == "ok"]
    return dict(triples=sum(r.get("n_obs", 0) for r in ok if r["cls"][0] == "box"),
                large_triples_outside_box=sum(r.get("large_triples", 0) for r in ok),
                layouts_checked=sum(r.get("layouts", 0) for r in ok),
                triples_in_workers_with_more_devices=sum(r.get("triples_multi_device_worker", 0) for r in ok),
                contract_evaluations=sum(r.get("invariant_evals", 0) for r in ok),
                box="n_states 1..260 x max_batch_size {1..70,127,128,129,1024} x devices 1..8")


def coverage_check(records, cases, tier):
    tri = sum(r.get("n_obs", 0) for r in records if r["status"] == "ok" and r.get("cls", [""])[0] == "box")
    if tri != 260 * len(MB) * 8:
        return f"box not complete: {tri} of {260 * len(MB) * 8} triples"
    return None
