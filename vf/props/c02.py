"""C02 - one sweep is the exact Bellman optimality backup; the extracted policy is greedy.

Monitor shape: reference model.  Value vectors are *injected* through the public
``values`` attribute, ``solve(1)`` performs one sweep, and the returned values / policy
are compared with an independent numpy backup on the generator's own tables.
"""

import numpy as np

from vf import gen, refmdp, shipped

SIBLING_EVERY = 2      # every n-th case is followed by a same-shape sibling problem/solver in the same process (vf/worker.py)
LEVEL = "exploration"
RULE = ("cases = generated tabular MDPs (8 structure classes x vector/scalar interface "
        "classes x listing order x 0-d/1-element probabilities) and reduced shipped problems, "
        "each under one solver (vi / semi-async single batch / periodic / relative) x gamma in "
        "{0,.5,.9,.99,1} x max_batch_size x device count; per case 40-300 injected value vectors "
        "(random at 6 scales, one-hot, constant, v*, monotone pairs, shifted pairs) each pushed "
        "through solve(1). A case is deciding when every injected vector reached the comparison; "
        "distinct = distinct (structure, interface class, solver, gamma, partition class) with "
        ">=2 actions; n_obs counts injected vectors.")
ASSUMPTIONS = ["vf.refmdp numpy Bellman backup on the generator's tables is the specification",
               "tables of shipped problems are taken from their own public functions (their "
               "correctness is C13-C16)",
               "emulated CPU devices stand in for real accelerators"]
MIN_DECIDING = {"quick": 40, "thorough": 300}
SHARD_TIMEOUT = {"quick": 1500, "thorough": 7000}

GAMMAS = [0.0, 0.5, 0.9, 0.99, 1.0]


def gen_cases(seed, tier):
    rng = np.random.default_rng([seed, 2])
    n = 72 if tier == "quick" else 640
    nvec = 60 if tier == "quick" else 200
    devs = [1, 1, 1, 2, 3] if tier == "quick" else [1, 1, 2, 3, 4]
    cases = []
    for i in range(n):
        solver = str(rng.choice(["vi", "vi", "vi", "sa", "per", "rvi"]))
        spec = gen.random_spec(rng, smin=2, smax=45)
        if rng.random() < 0.2:
            spec["S"] = int(rng.choice([65, 70, 97, 129, 130]))
        g = 1.0 if solver == "rvi" else float(rng.choice(GAMMAS))
        if solver == "per" and g == 1.0:
            period = int(rng.integers(2, 5))
        else:
            period = int(rng.integers(1, 5))
        S = spec["S"]
        mb = int(rng.choice([1, 2, 3, 5, max(S - 1, 1), S, S + 1, 1024]))
        if solver == "sa":
            mb = int(rng.choice([S, S + 3, 1024]))  # one batch per device => synchronous sweep
        cases.append(dict(kind="gen", spec=spec, solver=solver, gamma=g, period=period,
                          max_batch_size=mb, devices=int(rng.choice(devs)), nvec=nvec,
                          vseed=int(rng.integers(0, 2**31 - 1))))
    # reduced shipped problems under plain value iteration
    for j, (name, params) in enumerate(shipped.SMALL):
        if tier == "quick" and j % 2 == 1:
            continue
        cases.append(dict(kind="shipped", name=name, params=params, solver="vi",
                          gamma=float(rng.choice([0.5, 0.9, 1.0])), period=2,
                          max_batch_size=int(rng.choice([7, 64, 1024])), devices=1,
                          nvec=25 if tier == "quick" else 80,
                          vseed=int(rng.integers(0, 2**31 - 1))))
    return cases


def _vectors(r, S, scale, g, P, R, nvec):
    out = []
    for k in range(nvec):
        m = k % 6
        if m == 0:
            out.append(("random", r.normal(size=S) * scale * 10.0 ** r.integers(-2, 4)))
        elif m == 1:
            v = np.zeros(S)
            v[int(r.integers(0, S))] = float(r.choice([1.0, -3.0, 1e3])) * scale
            out.append(("onehot", v))
        elif m == 2:
            out.append(("const", np.full(S, float(r.normal() * scale * 5))))
        elif m == 3:
            a = r.normal(size=S) * scale
            out.append(("mono-lo", a))
            out.append(("mono-hi", a + np.abs(r.normal(size=S)) * scale * r.choice([0.0, 1.0], size=S)))
        elif m == 4:
            a = r.normal(size=S) * scale
            c = float(r.normal() * scale * 7)
            out.append(("shift-base", a))
            out.append(("shift+c", a + c))
        else:
            out.append(("int", np.round(r.normal(size=S) * 4) * scale))
    # very large magnitudes of either sign (the property quantifies over ALL value vectors)
    for sign, tag in ((-1.0, "huge-neg"), (1.0, "huge-pos")):
        for expo in (10, 14):
            out.append((tag, sign * (1.0 + np.abs(r.normal(size=S))) * 10.0 ** expo))
    out.append(("huge-mixed", r.normal(size=S) * 1e12))
    # integer-DTYPE vectors (a user assigning jnp.full(n, 10) or a rounded int array): promoted, never truncated
    out.append(("int-dtype", np.round(r.normal(size=S) * 4 * max(scale, 1.0)).clip(-2e9, 2e9)))
    if g < 1.0:
        try:
            out.append(("vstar", refmdp.vstar(P, R, g)[0]))
        except Exception:
            pass
    return out


def run_case(case):
    import jax.numpy as jnp

    from vf import tabular, target

    g = case["gamma"]
    if case["kind"] == "gen":
        spec = case["spec"]
        t = gen.build(spec)
        problem = target.call("construct problem", tabular.make, spec, t)
        nxt, rew, prob = t["nxt"], t["rew"], t["prob"]
        scale = spec["scale"]
        struct, iface = spec["structure"], gen.interface_class(spec, t)
    else:
        problem = target.call("construct shipped problem", shipped.make, case["name"], case["params"])
        tb = target.problem_tables(problem)
        nxt, rew, prob = tb["nxt"], tb["rew"], tb["prob"]
        scale = float(max(1.0, np.abs(rew).max()))
        struct, iface = "shipped:" + case["name"], ("shipped",)
    P, R = refmdp.tables(nxt, rew, prob)
    S, A = R.shape
    kw = dict(gamma=g, epsilon=1e-3 * scale, max_batch_size=case["max_batch_size"])
    name = case["solver"]
    if name == "rvi":
        kw.pop("gamma")
    if name == "per":
        kw.update(period=case["period"], clear_value_history_on_convergence=False)
    s = target.make_solver(name, problem, **kw)
    shape = tuple(int(x) for x in s.batch_processor.batch_shape)
    if name == "sa" and shape[1] != 1:
        return dict(status="skip", reason="semi-async with >1 batch is not a synchronous sweep")
    n_pad = int(s.n_pad)
    part = (f"d{shape[0]}", "b1" if shape[1] == 1 else "b>1", "pad" if n_pad else "nopad")
    aspace = np.asarray(problem.action_space)

    r = np.random.default_rng(case["vseed"])
    vecs = _vectors(r, S, scale, g, P, R, case["nvec"])
    vclasses = {}
    outs = {}
    worst = 0.0
    for k, (vc, V) in enumerate(vecs):
        if vc == "int-dtype":
            s.values = jnp.asarray(V.astype(np.int32)) if case["vseed"] % 2 else np.asarray(V.astype(np.int64))
        else:
            s.values = jnp.asarray(V) if k % 2 else np.asarray(V)
        gain_before = float(getattr(s, "gain", 0.0))
        it0 = int(s.iteration)
        res = target.solve(s, 1)
        if int(res.info.iteration) != it0 + 1:
            return dict(status="skip", reason="iteration increment != 1 (C08's business)")
        got = target.np_values(res.values)
        if got.shape != (S,):
            return dict(status="violation", kind="shape",
                        detail=f"returned values shape {got.shape} != ({S},) [{vc}]")
        LV = refmdp.bellman(P, R, g, V)
        mag = np.abs(R).max() + np.abs(V).max()
        slack = 1e-9 * (1.0 + mag)
        if name == "rvi":
            d = got - LV
            err = float(np.max(d) - np.min(d))  # any normalisation constant is fine
            ref_for_q = got
        else:
            err = float(np.abs(got - LV).max())
            ref_for_q = LV
        worst = max(worst, err / (1.0 + mag))
        if not err <= slack:
            s_bad = int(np.argmax(np.abs(got - LV - (np.median(got - LV) if name == "rvi" else 0.0))))
            return dict(status="violation", kind="backup",
                        detail=f"{name} g={g} vec={vc}#{k} batch_shape={shape} n_pad={n_pad}: "
                               f"state {s_bad} got {got[s_bad]!r} expected {LV[s_bad]!r} "
                               f"(max err {err:.3e}, slack {slack:.1e})",
                        vector=V.tolist() if S <= 60 else None)
        # policy: rows of the action space attaining max Q at the *returned* values
        pidx = target.policy_indices(res.policy, aspace)
        if (pidx < 0).any() or len(pidx) != S:
            return dict(status="violation", kind="policy-row",
                        detail=f"policy row not in action space / wrong length ({len(pidx)} rows, "
                               f"first bad state {int(np.argmax(pidx < 0))}) [{vc}]")
        Q = refmdp.q(P, R, g, ref_for_q)
        qs = 1e-9 * (1.0 + np.abs(Q).max())
        lack = Q.max(1) - Q[np.arange(S), pidx]
        if (lack > qs).any():
            sb = int(np.argmax(lack))
            return dict(status="violation", kind="not-greedy",
                        detail=f"{name} g={g} vec={vc}#{k}: state {sb} action row {pidx[sb]} has "
                               f"Q={Q[sb, pidx[sb]]!r} < max {Q[sb].max()!r}")
        vclasses[vc] = vclasses.get(vc, 0) + 1
        outs[k] = (vc, V, got)
    # metamorphic consequences on the real outputs (localise a failure; implied by exactness)
    proper = bool(np.abs(P.sum(-1) - 1.0).max() <= 1e-12)
    if name != "rvi":
        ks = sorted(outs)
        for a, b in zip(ks, ks[1:]):
            (ca, Va, Oa), (cb, Vb, Ob) = outs[a], outs[b]
            mag = np.abs(R).max() + max(np.abs(Va).max(), np.abs(Vb).max())
            sl = 4e-9 * (1.0 + mag)
            if ca == "mono-lo" and cb == "mono-hi" and (Oa > Ob + sl).any():
                return dict(status="violation", kind="monotone", detail="V<=W but L V > L W")
            # the shift law needs rows that sum to one (Hendrix' truncated tables do not: C13)
            if ca == "shift-base" and cb == "shift+c" and proper:
                c = float((Vb - Va)[0])
                if np.abs(Ob - Oa - g * c).max() > sl:
                    return dict(status="violation", kind="shift",
                                detail=f"L(V+c) - L(V) != gamma*c (c={c}, g={g})")
            if np.abs(Oa - Ob).max() > g * np.abs(Va - Vb).max() + sl:
                return dict(status="violation", kind="contraction",
                            detail=f"||LV-LW|| > gamma ||V-W|| for vectors {a},{b}")
    return dict(status="ok", n_obs=len(outs), nontrivial=A >= 2,
                cls=[struct, list(iface), name, f"g={g}", list(part)],
                vec_classes=vclasses, worst_rel_err=worst, batch_shape=list(shape), n_pad=n_pad)


def aggregate(records, cases):
    vc = {}
    shapes = set()
    worst = 0.0
    for r in records:
        if r["status"] == "ok":
            for k, v in r.get("vec_classes", {}).items():
                vc[k] = vc.get(k, 0) + v
            shapes.add(tuple(r["batch_shape"]) + (r["n_pad"],))
            worst = max(worst, r.get("worst_rel_err", 0.0))
    return dict(injected_vectors_by_class=vc, distinct_partitions=len(shapes),
                worst_relative_error_observed=worst)


def coverage_check(records, cases, tier):
    ok = [r for r in records if r["status"] == "ok"]
    n = sum(r.get("n_obs", 0) for r in ok)
    need = 2500 if tier == "quick" else 40000
    if n < need:
        return f"only {n} injected vectors reached the oracle (< {need})"
    pads = sum(1 for r in ok if r.get("n_pad", 0) > 0)
    if pads < 3:
        return f"only {pads} cases with a padded last batch"
    return None
