"""C03 - results are independent of batch size, device count and padding.

Monitor shape: reference model + cross-configuration comparison.  One problem is solved by all
five solvers under several max_batch_size values inside a worker that owns N emulated devices;
every configuration is compared with the numpy reference trajectory (which does not know about
batching) and with the other configurations; the parent then compares stop iterations and gains
of the same problem across device counts.
"""

import json
import os

import numpy as np

from vf import common, gen, refmdp, refsolve

LEVEL = "exploration"
TECHNIQUE = "differential monitoring: the same problem/solver under different (max_batch_size, emulated device count) compared with a batching-agnostic numpy reference and with each other"
RULE = ("cases = (generated MDP with n_states chosen against the partition arithmetic: primes, n<devices, "
        "n=devices*batch (no padding), that+1, 64*devices+-1; zero vector a state / not a state) x device count "
        "{1,2,3} (quick) or {1,2,3,4,8} (thorough). Inside a case all five solvers run under 5 max_batch_size "
        "values from {1,2,7,64,n,n+3,1024}: values after sweeps 1,2,3,5,10, stop iteration, gain, value history, "
        "exact value of the returned policy, array lengths; semi-async: its max_diff bound per partition. "
        "n_obs = (solver, batch size) configurations judged; distinct = distinct (devices, batches, batch size, "
        "padding, solver) layouts.")
ASSUMPTIONS = ["vf.refsolve/refmdp reference knows nothing about batching or devices",
               "emulated host devices (XLA_FLAGS=--xla_force_host_platform_device_count=N)",
               "policy values are compared only when the greedy choice is not a numerical near-tie"]
MIN_DECIDING = {"quick": 40, "thorough": 250}
SHARD_TIMEOUT = {"quick": 2400, "thorough": 12000}
TARGET_SHARDS = {"quick": 64, "thorough": 128}
MBS = [1, 2, 7, 64, "n", "n+3", 1024]
STEPS = (1, 2, 3, 5, 10)


def _sizes(rng, d):
    return int(rng.choice([2, 3, 5, 7, 13, 31, 61, d - 1 if d > 2 else 2, d, d + 1,
                           64 * d, 64 * d + 1, 64 * d - 1, 2 * 64 * d, 2 * 7 * d, 7 * d + 1]))


def gen_cases(seed, tier):
    rng = np.random.default_rng([seed, 3])
    nprob = 20 if tier == "quick" else 90
    devs = [1, 2, 3] if tier == "quick" else [1, 2, 3, 4, 8]
    cases = []
    for i in range(nprob):
        dref = int(rng.choice(devs[1:]))
        S = max(2, _sizes(rng, dref))
        spec = gen.random_spec(rng, S=S, amax=3, emax=3)
        if spec["init"] == "far":
            spec["init"] = "random"
        avg = bool(rng.random() < 0.5)
        if avg:
            spec = gen.random_spec(rng, S=S, amax=3, emax=3, avg="unichain")
            spec["init"] = "random"
        g = float(rng.choice([0.5, 0.8, 0.9]))
        eps = float(spec["scale"] * 10.0 ** rng.uniform(-4, 0))
        mbs = list(rng.choice(len(MBS) - 1, size=4, replace=False)) + [len(MBS) - 1]
        period = int(rng.integers(2, 4))
        for d in devs:
            cases.append(dict(kind="gen", spec=spec, problem_id=i, gamma=g, epsilon=eps, devices=d,
                              mbs=[MBS[int(j)] for j in mbs], period=period, unichain=avg))
    # README construction order (64-bit mode NOT enabled by the harness first): several solvers that differ only in
    # max_batch_size, built one after the other on the SAME problem instance in one fresh process
    for sv in ("vi", "pi", "rvi", "per", "sa"):
        cases.append(dict(kind="readme-twins", solver=sv, devices=1 if sv != "vi" else 2, problem_id=-1))
    return cases


_TWINS = r"""
import sys, os, json
if os.environ.get("MDPAX_SRC"): sys.path.insert(0, os.environ["MDPAX_SRC"])
import numpy as np
from mdpax.problems import Forest
from mdpax.solvers import ValueIteration, PolicyIteration, RelativeValueIteration, PeriodicValueIteration, SemiAsyncValueIteration
sv = sys.argv[1]
C = dict(vi=ValueIteration, pi=PolicyIteration, rvi=RelativeValueIteration, per=PeriodicValueIteration, sa=SemiAsyncValueIteration)[sv]
kw = dict(verbose=0, epsilon=1e-3)
if sv != "rvi": kw["gamma"] = 0.9
if sv == "per": kw["period"] = 2
p = Forest(S=70, p=0.13)
out = []
for mb in (1024, 64, 7) if sv != "sa" else (1024, 1024, 1024):      # semi-async results legitimately depend on the batching
    s = C(p, max_batch_size=mb, **kw)
    r = s.solve(40)
    out.append(dict(mb=mb, it=int(r.info.iteration), dtype=str(np.asarray(r.values).dtype),
                    values=np.asarray(r.values, dtype=float).tolist(), policy=np.asarray(r.policy).reshape(-1).tolist()))
print("RESULT " + json.dumps(out))
"""


def _readme_twins(case):
    import subprocess
    import sys

    env = dict(os.environ)
    env["VF_NO_X64"] = "1"
    p = subprocess.run([sys.executable, "-c", _TWINS, case["solver"]], env=env, capture_output=True, text=True, timeout=900)
    line = [l for l in p.stdout.splitlines() if l.startswith("RESULT ")]
    if not line:
        return dict(status="violation", kind="target-exception", detail=f"{case['solver']}: README-order solvers failed: {p.stderr[-400:]}")
    out = json.loads(line[0][7:])
    a = out[0]
    for b in out[1:]:
        va, vb = np.asarray(a["values"]), np.asarray(b["values"])
        if b["it"] != a["it"] or b["dtype"] != a["dtype"] or b["policy"] != a["policy"] or np.abs(va - vb).max() > 1e-12 * (1 + np.abs(va).max()):
            return dict(status="violation", kind="readme-twins",
                        detail=f"{case['solver']}: solvers built one after the other on the same Forest instance (README order, one process) that "
                               f"differ only in max_batch_size ({a['mb']} vs {b['mb']}) disagree: iterations {a['it']} vs {b['it']}, dtypes "
                               f"{a['dtype']} vs {b['dtype']}, max value difference {np.abs(va - vb).max():.3e}")
    return dict(status="ok", n_obs=len(out), cls=["readme-twins", f"d{case['devices']}", case["solver"]], layouts=[], devices=case["devices"],
                problem_id=f"readme-twins-{case['solver']}", summary={})


def _mb(tag, S):
    return S if tag == "n" else (S + 3 if tag == "n+3" else int(tag))


def run_case(case):
    from vf import target

    if case.get("kind") == "readme-twins":
        return _readme_twins(case)

    problem, nxt, rew, prob, scale, struct, iface, t = common.build_problem(case)
    P, R = refmdp.tables(nxt, rew, prob)
    S, A = R.shape
    g, eps = case["gamma"], case["epsilon"]
    aspace = np.asarray(problem.action_space)
    v0 = np.zeros(S) if t.get("init") is None else np.asarray(t["init"], dtype=float)
    vs = refmdp.vstar(P, R, g)[0]
    mag = 1.0 + scale + float(np.abs(vs).max()) + float(np.abs(v0).max())
    slack = 1e-9 * mag
    summary = {}
    layouts = []
    n_cfg = 0
    skipped = {}

    def bad(kind, msg, cfg):
        return dict(status="violation", kind=kind, detail=f"[{cfg}] {msg}")

    solvers = [("vi", "span"), ("vi", "max_diff"), ("per", "span"), ("pi", "max_diff"), ("sa", "max_diff"),
               ("sas", "max_diff")]   # sas = semi-async with state shuffling
    if case["unichain"]:
        solvers.append(("rvi", "span"))
    first = {}
    for (sv, test) in solvers:
        gg = 1.0 if sv == "rvi" else g
        thr = eps if sv in ("rvi", "per") else eps * (1 - gg) / gg
        for tag in case["mbs"]:
            mb = _mb(tag, S)
            kw = dict(gamma=gg, epsilon=eps, max_batch_size=mb)
            if sv in ("vi", "sa", "sas", "pi"):
                kw["convergence_test"] = test
            if sv == "rvi":
                kw.pop("gamma")
            if sv == "per":
                kw.update(period=case["period"], clear_value_history_on_convergence=False)
            if sv == "pi":
                kw.update(max_eval_iter=100000)
            if sv == "sa":
                kw.update(shuffle_states=False)
            if sv == "sas":
                kw.update(shuffle_states=True, random_seed=int(case["problem_id"]) * 7 + mb)
            s = target.make_solver("sa" if sv == "sas" else sv, problem, **kw)
            shape, n_pad, part = common.partition_class(s)
            cfg = f"{sv}/{test} mb={mb} devices={shape[0]} batch_shape={shape} n_pad={n_pad} S={S}"
            if shape[0] != case["devices"]:
                return dict(status="error", detail=f"harness: expected {case['devices']} devices, solver uses {shape[0]}")
            lay = [shape[0], shape[1], shape[2], n_pad, sv]
            key = f"{sv}/{test}"
            if sv in ("vi", "per", "rvi"):
                traj = refsolve.Trajectory(sv, P, R, gg, v0, test=test, period=case["period"])
                stop = None
                near = False
                cap = 400
                for n in range(1, cap + 1):
                    _, m = traj.step()
                    if refsolve.near_threshold(m, thr, traj.noise(n)):
                        near = True
                        break
                    if m < thr:
                        stop = n
                        break
                # stepped sweeps
                done = 0
                stopped_early = False
                for k in range(1, STEPS[-1] + 1):
                    if stop is not None and k > stop:
                        break
                    if near and k >= traj.n:
                        break
                    res = target.solve(s, 1)
                    done = k
                    if k in STEPS:
                        got = target.np_values(res.values)
                        if got.shape != (S,):
                            return bad("length", f"values length {got.shape} after sweep {k}", cfg)
                        d = got - traj.iter[k]
                        err = float(d.max() - d.min()) if sv == "rvi" else float(np.abs(d).max())
                        if err > slack:
                            return bad("sweep-values", f"values after {k} sweeps differ from the reference by {err:.3e} "
                                                       f"(state {int(np.argmax(np.abs(d - np.median(d))))})", cfg)
                if near:
                    skipped["near_threshold"] = skipped.get("near_threshold", 0) + 1
                    continue
                res = target.solve(s, cap) if (stop is None or done < stop) else res
                it = int(res.info.iteration)
                exp = stop if stop is not None else done + cap
                if stop is not None and it != stop:
                    return bad("stop-iteration", f"converged at iteration {it}, reference rule (and other layouts) at {stop}", cfg)
                if stop is None:
                    skipped["not_converged"] = skipped.get("not_converged", 0) + 1
                    continue
                got = target.np_values(res.values)
                pol = np.asarray(res.policy)
                if got.shape != (S,) or pol.shape[0] != S:
                    return bad("length", f"returned arrays have lengths {got.shape}/{pol.shape}, n_states={S}", cfg)
                d = got - traj.iter[it]
                err = float(d.max() - d.min()) if sv == "rvi" else float(np.abs(d).max())
                if err > slack:
                    return bad("final-values", f"final values differ from the reference by {err:.3e}", cfg)
                extra = {}
                if sv == "rvi":
                    extra["gain"] = float(np.asarray(res.info.gain))
                    extra["v"] = got.tolist() if S <= 40 else None
                if sv == "per":
                    H = np.asarray(res.info.value_history, dtype=float)
                    hi = int(res.info.history_index)
                    p = case["period"]
                    for j in range(min(p, it) + 1):
                        if H.shape != (p + 1, S) or np.abs(H[(hi - j) % (p + 1)] - traj.iter[it - j]).max() > slack:
                            return bad("history", f"value history slot for V_{it - j} differs from the reference", cfg)
                pidx = target.policy_indices(pol, aspace)
                if (pidx < 0).any():
                    return bad("policy-row", "policy row outside the action space", cfg)
                summary.setdefault(key, {})[str(mb)] = dict(it=it, **extra)
                if sv != "rvi":
                    Q = refmdp.q(P, R, gg, traj.iter[it])
                    srt = np.sort(Q, axis=1)
                    neartie = bool(((srt[:, -1] - srt[:, -2]) < 1e-6 * mag).any()) if A > 1 else False
                    if gg < 1.0 and not neartie:
                        vp = refmdp.evalpi(P, R, pidx, gg)
                        if key in first and first[key].get("vp") is not None:
                            if np.abs(vp - first[key]["vp"]).max() > 10 * slack:
                                return bad("policy-value", "exact value of the returned policy differs between batch sizes", cfg)
                        else:
                            first.setdefault(key, {})["vp"] = vp
                else:
                    if key in first and "gain" in first[key]:
                        if abs(extra["gain"] - first[key]["gain"]) > slack or np.abs(got - first[key]["v"]).max() > slack:
                            return bad("gain", f"gain/values differ between batch sizes: {extra['gain']!r} vs {first[key]['gain']!r}", cfg)
                    else:
                        first.setdefault(key, {}).update(gain=extra["gain"], v=got)
            elif sv == "pi":
                seq = []
                for k in range(3):
                    res = target.solve(s, 1)
                    seq.append(target.np_values(res.values))
                res = target.solve(s, 200)
                it = int(res.info.iteration)
                got = target.np_values(res.values)
                pol = np.asarray(res.policy)
                if got.shape != (S,) or pol.shape[0] != S:
                    return bad("length", f"returned arrays have lengths {got.shape}/{pol.shape}, n_states={S}", cfg)
                pidx = target.policy_indices(pol, aspace)
                if (pidx < 0).any():
                    return bad("policy-row", "policy row outside the action space", cfg)
                vp = refmdp.evalpi(P, R, pidx, g)
                if key in first:
                    f = first[key]
                    for k in range(3):
                        if np.abs(seq[k] - f["seq"][k]).max() > 10 * slack and not f["neartie"]:
                            return bad("pi-values", f"values after policy-iteration step {k + 1} differ between batch sizes "
                                                    f"by {np.abs(seq[k] - f['seq'][k]).max():.3e}", cfg)
                    if not f["neartie"] and (it != f["it"] or np.abs(vp - f["vp"]).max() > 10 * slack):
                        return bad("pi-final", f"iteration {it} vs {f['it']} / policy value differs by "
                                               f"{np.abs(vp - f['vp']).max():.3e} between batch sizes", cfg)
                else:
                    Q = refmdp.q(P, R, g, got)
                    srt = np.sort(Q, axis=1)
                    neartie = bool(((srt[:, -1] - srt[:, -2]) < 1e-6 * mag).any()) if A > 1 else False
                    first[key] = dict(seq=seq, it=it, vp=vp, neartie=neartie)
                # always: the C01 bound for this layout
                if it < 203 and float(np.max(vs - vp)) > 2 * eps / g + slack:
                    return bad("pi-bound", f"policy gap {float(np.max(vs - vp)):.4g} exceeds 2*eps/gamma", cfg)
                summary.setdefault(key, {})[str(mb)] = dict(it=it)
            else:  # semi-async: sweeps legitimately differ; bound per partition
                cap = 3000
                res = target.solve(s, cap)
                it = int(res.info.iteration)
                if it >= cap:
                    skipped["not_converged"] = skipped.get("not_converged", 0) + 1
                    continue
                got = target.np_values(res.values)
                pol = np.asarray(res.policy)
                if got.shape != (S,) or pol.shape[0] != S:
                    return bad("length", f"returned arrays have lengths {got.shape}/{pol.shape}, n_states={S}", cfg)
                pidx = target.policy_indices(pol, aspace)
                if (pidx < 0).any():
                    return bad("policy-row", "policy row outside the action space", cfg)
                vp = refmdp.evalpi(P, R, pidx, g)
                gap = float(np.max(vs - vp))
                verr = float(np.abs(got - vs).max())
                if gap > 2 * g * eps / (1 - g) + slack or verr > eps + slack:
                    return bad("sa-bound", f"semi-async bound violated under this partition: gap {gap:.4g} "
                                           f"(bound {2 * g * eps / (1 - g):.4g}), |V-v*| {verr:.4g} (bound {eps:.4g})", cfg)
            layouts.append(lay)
            n_cfg += 1
    if n_cfg == 0:
        return dict(status="skip", reason="no_configuration_judged")
    return dict(status="ok", n_obs=n_cfg, cls=[struct, f"d{case['devices']}", f"S={S}"], layouts=layouts,
                summary=summary, skipped_inside=skipped, problem_id=case["problem_id"], devices=case["devices"])


def post(records, cases, tier, scratch):
    """Parent: the same problem across device counts must agree on stop iterations and gains."""
    by = {}
    for r in records:
        if r["status"] == "ok":
            by.setdefault(r["problem_id"], []).append(r)
    out = list(records)
    for pid, rs in by.items():
        ref = rs[0]
        for r in rs[1:]:
            for key, per in r["summary"].items():
                its = {v["it"] for v in per.values()} | {v["it"] for v in ref["summary"].get(key, {}).values()}
                if len(its) > 1 and not key.startswith("pi"):
                    out.append(dict(case_id=r["case_id"], status="violation", kind="cross-device",
                                    detail=f"problem {pid} {key}: stop iterations differ across device counts "
                                           f"{ref['devices']} and {r['devices']}: {sorted(its)}"))
                gains = [v["gain"] for v in per.values() if "gain" in v] + \
                        [v["gain"] for v in ref["summary"].get(key, {}).values() if "gain" in v]
                if gains and max(gains) - min(gains) > 1e-8 * (1 + abs(gains[0])):
                    out.append(dict(case_id=r["case_id"], status="violation", kind="cross-device",
                                    detail=f"problem {pid} {key}: gains differ across device counts: {gains}"))
    return out


def aggregate(records, cases):
    ok = [r for r in records if r["status"] == "ok"]
    lays = {tuple(l) for r in ok for l in r.get("layouts", [])}
    nopad_multi = {l for l in lays if l[0] > 1 and l[3] == 0}
    return dict(configurations_judged=sum(r["n_obs"] for r in ok), distinct_layouts=len(lays),
                multi_device_no_padding_layouts=len(nopad_multi),
                solvers_on_no_padding_multi_device=sorted({l[4] for l in nopad_multi}),
                device_counts=sorted({r["devices"] for r in ok}),
                skipped_inside=_sum_dicts([r.get("skipped_inside", {}) for r in ok]))


def _sum_dicts(ds):
    out = {}
    for d in ds:
        for k, v in d.items():
            out[k] = out.get(k, 0) + v
    return out


def coverage_check(records, cases, tier):
    a = aggregate(records, cases)
    if a["configurations_judged"] < (600 if tier == "quick" else 4000):
        return f"only {a['configurations_judged']} configurations judged"
    if len(a["solvers_on_no_padding_multi_device"]) < 4:
        return f"no-padding multi-device layouts only seen for {a['solvers_on_no_padding_multi_device']}"
    return None
