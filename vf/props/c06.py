"""C06 - the semi-asynchronous sweep is block Gauss-Seidel in the documented order.

Monitor shape: reference model driven by a guarded source hook.  With MDPAX_VERIF=1 the solver
records the state order it hands to the batching step in every sweep; each real sweep (from an
injected start vector) is compared with an independent numpy block Gauss-Seidel sweep that uses
the partition the solver reports and the order the hook recorded.
"""

import numpy as np

from vf import common, gen, refmdp

LEVEL = "exploration"
TECHNIQUE = "hooked trace (per-sweep permutation recorded under MDPAX_VERIF=1) checked online against a numpy block Gauss-Seidel reference; reproducibility / freshness / fixed-point monitors"
RULE = ("cases = generated MDP x max_batch_size in {1,2,3,5,7,n,n+2,64} x devices {1,2,3,4} x shuffle on/off x "
        "random_seed. Per case 6-10 sweeps via solve(1) from injected start vectors (random, one-hot, v*), each "
        "compared with the block Gauss-Seidel reference under the recorded order; a twin with the same seed must "
        "record the same orders and values. n_obs = sweeps judged; distinct = distinct schedules (devices, batches, "
        "batch size, padding, fixed/shuffled) ; distinct permutations are counted separately.")
ASSUMPTIONS = ["the hook's record is what the batching step received (checked indirectly: the reference driven by it "
               "must reproduce the sweep)", "vf.refmdp.gs_sweep is the documented semantics",
               "the PRNG derivation is not pinned; only recorded orders are used"]
MIN_DECIDING = {"quick": 100, "thorough": 1000}
SHARD_TIMEOUT = {"quick": 1800, "thorough": 9000}


def gen_cases(seed, tier):
    rng = np.random.default_rng([seed, 6])
    n = 190 if tier == "quick" else 1900
    devs = [1, 1, 2, 3] if tier == "quick" else [1, 1, 2, 3, 4]
    cases = []
    for i in range(n):
        spec = gen.random_spec(rng, smin=2, smax=48)
        if rng.random() < 0.25:
            spec["S"] = int(rng.choice([64, 65, 127, 128, 129, 130]))  # multi-device layouts with >1 batch
        S = spec["S"]
        mb = int(rng.choice([1, 2, 3, 5, 7, S, S + 2, 64]))
        cases.append(dict(kind="gen", spec=spec, gamma=float(rng.choice([0.5, 0.9, 0.99, 1.0])),
                          max_batch_size=mb, devices=int(rng.choice(devs)), shuffle=bool(rng.random() < 0.6),
                          random_seed=int(rng.integers(0, 10**6)), nsweeps=int(rng.integers(6, 11)),
                          vseed=int(rng.integers(0, 2**31 - 1)), test=str(rng.choice(["span", "max_diff"]))))
    # README construction order (64-bit mode NOT enabled first) with seeds whose PRNG key depends on the integer width
    # (negative, >= 2^32): every solver of a process - the first included - must draw the same stream from the same seed
    for sd in (-3, 2 ** 32 + 5, 7, 0):
        cases.append(dict(kind="readme-seeds", random_seed=sd, devices=1))
    return cases


_SEEDS = r"""
import sys, os, json
if os.environ.get("MDPAX_SRC"): sys.path.insert(0, os.environ["MDPAX_SRC"])
import numpy as np
from mdpax.problems import Forest
from mdpax.solvers import SemiAsyncValueIteration
seed = int(sys.argv[1])
p = Forest(S=40, p=0.13)
out = []
for i in range(3):
    s = SemiAsyncValueIteration(p, gamma=0.9, epsilon=1e-9, verbose=0, max_batch_size=8, shuffle_states=True, random_seed=seed)
    s.solve(2)
    out.append([np.asarray(o).astype(int).tolist() for o in s._verif_sweep_orders])
import jax
key = jax.random.PRNGKey(seed)                 # 64-bit mode is on by now (the solvers switched it on)
exp = []
for _ in range(2):
    key, sub = jax.random.split(key)
    exp.append(np.asarray(jax.random.permutation(sub, 40)).astype(int).tolist())
print("RESULT " + json.dumps(dict(orders=out, x64=bool(jax.config.jax_enable_x64), documented=exp)))
"""


def _readme_seeds(case):
    import json
    import os
    import subprocess
    import sys

    env = dict(os.environ)
    env["VF_NO_X64"] = "1"
    p = subprocess.run([sys.executable, "-c", _SEEDS, str(case["random_seed"])], env=env, capture_output=True, text=True, timeout=900)
    line = [l for l in p.stdout.splitlines() if l.startswith("RESULT ")]
    if not line:
        return dict(status="violation", kind="target-exception", detail=f"random_seed={case['random_seed']}: README-order solvers failed: {p.stderr[-400:]}")
    out = json.loads(line[0][7:])
    o = out["orders"]
    if any(len(x) != 2 or sorted(x[0]) != list(range(40)) for x in o):
        return dict(status="error", detail="hook record of sweep orders missing in the README-order child")
    for i in (1, 2):
        if o[i] != o[0]:
            return dict(status="violation", kind="reproducibility",
                        detail=f"random_seed={case['random_seed']}: solver #{i + 1} built in a process (README order, 64-bit mode enabled by the "
                               f"first solver) draws other sweep orders than solver #1 from the same seed")
    return dict(status="ok", n_obs=6, perms=2, cls=[1, 5, 8, 0, "shuffled-readme-order"], batch_shape=[1, 5, 8], n_pad=0, multi_batch=True,
                structure="forest", matches_split_permutation_stream=bool(o[0] == out["documented"]))


def run_case(case):
    if case.get("kind") == "readme-seeds":
        return _readme_seeds(case)
    first = _run_one(case)
    if first["status"] != "ok" or case.get("kind", "gen") != "gen":
        return first
    # a second solver of the same shapes (same problem name, state count, vector dimension, batch layout) but
    # another problem, built afterwards in the same process
    second = _run_one(common.sibling_case(case, nsweeps=3))
    if second["status"] != "ok":
        if "detail" in second:
            second["detail"] = "[second solver of the same shapes built in this process] " + second["detail"]
        return second
    first["n_obs"] += second["n_obs"]
    first["perms"] += second["perms"]
    first["siblings"] = 1
    return first


def _run_one(case):
    import jax.numpy as jnp

    from vf import target

    problem, nxt, rew, prob, scale, struct, iface, t = common.build_problem(case)
    P, R = refmdp.tables(nxt, rew, prob)
    S, A = R.shape
    g = case["gamma"]
    kw = dict(gamma=g, epsilon=1e-12 * scale, max_batch_size=case["max_batch_size"], convergence_test=case["test"],
              shuffle_states=case["shuffle"], random_seed=case["random_seed"])
    s = target.make_solver("sa", problem, **kw)
    twin = target.make_solver("sa", problem, **kw)
    shape, n_pad, part = common.partition_class(s)
    r = np.random.default_rng(case["vseed"])
    vstar = refmdp.vstar(P, R, g)[0] if g < 1.0 else None
    orders = []
    judged = 0
    sweeps_total = 0
    for k in range(case["nsweeps"]):
        if k == 0:
            # the first sweep starts from what the solver itself took from problem.initial_value (any dtype)
            V = np.zeros(S) if t.get("init") is None else np.asarray(t["init"], dtype=float)
        elif k % 4 == 1:
            V = np.zeros(S)
            V[int(r.integers(0, S))] = 3.0 * scale
        elif k % 4 == 3 and vstar is not None:
            V = vstar.copy()
        else:
            V = r.normal(size=S) * scale * float(10.0 ** r.integers(-1, 3))
        if k > 0:
            s.values = jnp.asarray(V)
            twin.values = jnp.asarray(V)
        nsw = [1, 1, 2, 3][k % 4]          # some steps run several sweeps inside ONE solve() call
        n_before = len(getattr(s, "_verif_sweep_orders", None) or [])
        res = target.solve(s, nsw)
        res2 = target.solve(twin, nsw)
        rec = getattr(s, "_verif_sweep_orders", None)
        rec2 = getattr(twin, "_verif_sweep_orders", None)
        done = int(res.info.iteration) - sweeps_total
        sweeps_total = int(res.info.iteration)
        if rec is None or rec2 is None or len(rec) != n_before + done or len(rec2) != len(rec) or done < 1:
            return dict(status="error", detail=f"hook record missing or of wrong length (guard not honoured?): "
                                               f"{None if rec is None else len(rec)} records, {n_before}+{done} sweeps")
        ref = V
        for j in range(done):
            o = rec[n_before + j]
            if case["shuffle"]:
                if o is None:
                    return dict(status="violation", kind="order", detail="shuffling requested but sweep used the fixed order")
                o = np.asarray(o).astype(int)
                if o.shape != (S,) or not np.array_equal(np.sort(o), np.arange(S)):
                    return dict(status="violation", kind="order",
                                detail=f"recorded sweep order is not a permutation of all {S} states")
                if not np.array_equal(o, np.asarray(rec2[n_before + j]).astype(int)):
                    return dict(status="violation", kind="reproducibility",
                                detail=f"two solvers with random_seed={case['random_seed']} used different orders in sweep {n_before + j + 1}")
                orders.append(tuple(o.tolist()))
            else:
                if o is not None:
                    return dict(status="violation", kind="order", detail="fixed order requested but a permutation was used")
                o = np.arange(S)
            ref = refmdp.gs_sweep(P, R, g, ref, o, shape, S)
        got = target.np_values(res.values)
        mag = 1.0 + float(np.abs(V).max()) + float(np.abs(R).max())
        if got.shape != (S,) or np.abs(got - ref).max() > 1e-9 * mag:
            sb = int(np.argmax(np.abs(got - ref))) if got.shape == (S,) else -1
            jac = refmdp.bellman(P, R, g, V)
            hint = " (equals the synchronous backup: carried values not reused)" if got.shape == (S,) and np.abs(got - jac).max() <= 1e-9 * mag else ""
            return dict(status="violation", kind="sweep",
                        detail=f"sweep {k + 1} (shuffle={case['shuffle']}, batch_shape={shape}, n_pad={n_pad}, g={g}): "
                               f"state {sb} got {got[sb]!r}, block Gauss-Seidel reference {ref[sb]!r}{hint}")
        if not np.array_equal(np.asarray(res.values), np.asarray(res2.values)):
            return dict(status="violation", kind="reproducibility", detail="same seed, same input: different sweep results")
        if k % 4 == 3 and vstar is not None:
            if np.abs(got - vstar).max() > 1e-9 * (1 + np.abs(vstar).max() + scale):
                return dict(status="violation", kind="fixed-point", detail="v* is not a fixed point of the sweep")
        judged += done
    fresh = None
    if case["shuffle"] and S >= 8 and len(orders) >= 4:
        # drawn afresh for each sweep: a repeat among <= 20 draws from >= 8! permutations has probability < 1e-2/8!
        fresh = len(set(orders)) == len(orders)
        if not fresh:
            rep = [i for i in range(1, len(orders)) if orders[i] in orders[:i]]
            return dict(status="violation", kind="freshness",
                        detail=f"shuffling on, yet sweep(s) {[i + 1 for i in rep]} re-used a permutation of an earlier sweep "
                               f"({len(set(orders))} distinct permutations in {len(orders)} sweeps)")
        # the stream must depend on random_seed: another seed gives another sequence
        if case["case_id"] % 3 == 0:
            other = target.make_solver("sa", problem, **{**kw, "random_seed": case["random_seed"] + 1})
            other.values = jnp.asarray(vstar if vstar is not None else np.zeros(S))
            target.solve(other, 2)
            oo = [tuple(np.asarray(x).astype(int).tolist()) for x in other._verif_sweep_orders[:2]]
            if oo == orders[:2]:
                return dict(status="violation", kind="seed-ignored",
                            detail=f"random_seed={case['random_seed']} and {case['random_seed'] + 1} produce the same sweep orders")
    sched = [shape[0], shape[1], shape[2], n_pad, "shuffled" if case["shuffle"] else "fixed"]
    return dict(status="ok", n_obs=judged, cls=sched, perms=len(set(orders)), batch_shape=list(shape), n_pad=n_pad,
                multi_batch=bool(shape[1] > 1), structure=struct)


def aggregate(records, cases):
    ok = [r for r in records if r["status"] == "ok"]
    return dict(sweeps_judged=sum(r["n_obs"] for r in ok),
                distinct_schedules=len({tuple(r["cls"]) for r in ok}),
                distinct_permutations=sum(r["perms"] for r in ok),
                multi_batch_cases=sum(1 for r in ok if r["multi_batch"]),
                multi_device_multi_batch_cases=sum(1 for r in ok if r["multi_batch"] and r["batch_shape"][0] > 1),
                padded_shuffled_cases=sum(1 for r in ok if r["n_pad"] > 0 and r["cls"][4] == "shuffled"))


def coverage_check(records, cases, tier):
    a = aggregate(records, cases)
    k = 1 if tier == "quick" else 10
    if a["sweeps_judged"] < 1000 * k:
        return f"only {a['sweeps_judged']} sweeps judged"
    if a["distinct_schedules"] < 30:
        return f"only {a['distinct_schedules']} distinct schedules"
    if a["distinct_permutations"] < 200 * k:
        return f"only {a['distinct_permutations']} distinct permutations"
    if a["multi_device_multi_batch_cases"] < 3 * k:
        return "too few multi-device cases with more than one batch per device"
    return None
