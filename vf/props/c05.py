"""C05 - policy iteration: evaluation is accurate and termination means policy stability.

Monitor shape: reference model + history.  (a) arbitrary policies and start values are injected
through the public ``policy`` / ``values`` attributes and one ``solve(1)`` step is compared with a
numpy fixed-point iteration of L_pi under the same stopping rule, and with the exact linear solve;
(b) a terminated solve(K) is compared with a twin stepped by solve(1) to expose the policy sequence;
(c) the policy held right after construction is compared with the problem's initial_policy / the
myopic policy.
"""

import numpy as np

from vf import common, gen, refmdp

SIBLING_EVERY = 3      # every n-th case is followed by a same-shape sibling problem/solver in the same process (vf/worker.py)
LEVEL = "exploration"
TECHNIQUE = "reference-model oracle on injected policies (numpy L_pi iteration with the documented stop rule + exact linear solve) and a stepped twin exposing the policy sequence"
RULE = ("cases = generated MDP (all structure classes, 1- and 2-component actions, listing order, padded "
        "batches) x gamma x epsilon x test x max_eval_iter in {1,3,100,ample} x reset on/off. Per case: the "
        "initial policy check, 12-40 injected (policy, start values) evaluations+improvements, and one "
        "terminated solve(K) with its stepped twin. n_obs = injected evaluations judged; distinct = distinct "
        "(structure, action dim, test, budget class, reset, partition class, initial-policy class).")
ASSUMPTIONS = ["numpy L_pi iteration replicates the documented rule (test, threshold eps*(1-g)/g, budget, returns "
               "the last pre-update iterate)", "exact v^pi by numpy.linalg.solve",
               "near-threshold evaluation sweeps are not judged"]
MIN_DECIDING = {"quick": 80, "thorough": 800}
SHARD_TIMEOUT = {"quick": 1800, "thorough": 9000}
AMPLE = 1_000_000


def gen_cases(seed, tier):
    rng = np.random.default_rng([seed, 5])
    n = 150 if tier == "quick" else 1500
    devs = [1, 1, 2, 3] if tier == "quick" else [1, 1, 2, 3, 4]
    cases = []
    for i in range(n):
        spec = gen.random_spec(rng, smin=2, smax=30)
        if rng.random() < 0.3:
            spec["S"] = int(rng.choice([65, 70, 97, 128, 130]))   # real states on every device of a multi-device layout
        if rng.random() < 0.5:
            spec["adim"] = 2
        if spec["init"] == "far":
            spec["init"] = "random"
        g = float(rng.choice([0.3, 0.6, 0.9, 0.97]))
        eps = float(spec["scale"] * 10.0 ** rng.uniform(-6, 0))
        budget = [1, 3, 100, AMPLE, AMPLE][int(rng.integers(0, 5))]
        if budget <= 100 and rng.random() < 0.3:
            g = float(rng.choice([0.99999, 1 - 1e-7, 0.02]))    # thresholds eps*(1-g)/g far from eps
        cases.append(dict(kind="gen", spec=spec, gamma=g, epsilon=eps, test=str(rng.choice(["span", "max_diff"])),
                          max_eval_iter=budget, reset=bool(rng.integers(0, 2)),
                          max_batch_size=common.batch_choices(rng, spec["S"]), devices=int(rng.choice(devs)),
                          ninj=16 if tier == "quick" else 40, iseed=int(rng.integers(0, 2**31 - 1)),
                          warm=[None, None, None, "incumbent", "flat"][int(rng.integers(0, 5))]))
    return cases


def ref_evaluate(P, R, g, pi, v, test, thr, budget, noise_scale):
    """numpy replica of the documented evaluation loop. -> (values, sweeps, near?, converged?)"""
    S = len(pi)
    idx = np.arange(S)
    Pp, Rp = P[idx, pi], R[idx, pi]
    near = False
    k = 0
    for k in range(min(budget, 200000)):
        new = Rp + g * (Pp @ v)
        d = new - v
        m = (d.max() - d.min()) if test == "span" else np.abs(d).max()
        if abs(m - thr) <= 1e-7 * thr + noise_scale:
            near = True
        if m < thr:
            return v, k + 1, near, True
        v = new
    return v, k + 1, near, False


def run_case(case):
    import jax.numpy as jnp

    from vf import target

    g, eps, test, budget = case["gamma"], case["epsilon"], case["test"], case["max_eval_iter"]
    if case.get("warm"):
        from vf.props.c01 import warm_problem

        problem, nxt, rew, prob, scale, struct, iface, t = warm_problem(case, g)
    else:
        problem, nxt, rew, prob, scale, struct, iface, t = common.build_problem(case)
    P, R = refmdp.tables(nxt, rew, prob)
    S, A = R.shape
    thr = eps * (1 - g) / g
    aspace = np.asarray(problem.action_space)
    kw = dict(gamma=g, epsilon=eps, convergence_test=test, max_eval_iter=budget,
              reset_values_for_each_policy_eval=case["reset"], max_batch_size=case["max_batch_size"])
    s = target.make_solver("pi", problem, **kw)
    shape, n_pad, part = common.partition_class(s)
    v_init = np.zeros(S) if t.get("init") is None else np.asarray(t["init"], dtype=float)

    # (c) first policy
    p0 = target.policy_indices(s.policy, aspace)
    if len(p0) != S or (p0 < 0).any():
        return dict(status="violation", kind="initial-policy", detail="initial policy has a row outside the action space")
    if t.get("ipol") is not None:
        ipc = "custom"
        if not np.array_equal(p0, np.asarray(t["ipol"])):
            sb = int(np.argmax(p0 != np.asarray(t["ipol"])))
            return dict(status="violation", kind="initial-policy",
                        detail=f"problem supplies an initial policy but the solver starts from another one "
                               f"(state {sb}: action row {p0[sb]} instead of {int(t['ipol'][sb])})")
    else:
        ipc = "myopic"
        lack = R.max(1) - R[np.arange(S), p0]
        if (lack > 1e-9 * (1 + np.abs(R).max())).any():
            return dict(status="violation", kind="initial-policy",
                        detail=f"first policy does not maximise immediate expected reward at state {int(np.argmax(lack))}")

    # (a) injected evaluations
    r = np.random.default_rng(case["iseed"])
    judged = nearskip = exact_checked = 0
    worst_exact = 0.0
    for k in range(case["ninj"]):
        pol = r.integers(0, A, size=S)
        if k % 4 == 1:
            pol = np.full(S, int(r.integers(0, A)))
        V0 = r.normal(size=S) * scale * float(10.0 ** r.integers(-1, 3))
        s.policy = jnp.asarray(aspace[pol])
        s.values = jnp.asarray(V0)
        res = target.solve(s, 1)
        got = target.np_values(res.values)
        start = v_init if case["reset"] else V0
        vmag = float(np.abs(start).max()) + float(np.abs(R).max()) / (1 - g)
        noise = 64 * np.finfo(float).eps * vmag * max(S, 8)
        ref, sweeps, near, conv = ref_evaluate(P, R, g, pol, start, test, thr, budget, noise)
        if near:
            nearskip += 1
            continue
        slack = 1e-9 * (1 + vmag + scale)
        if got.shape != (S,) or np.abs(got - ref).max() > slack:
            sb = int(np.argmax(np.abs(got - ref))) if got.shape == (S,) else -1
            return dict(status="violation", kind="evaluation",
                        detail=f"pi/{test} g={g} budget={budget} reset={case['reset']} batch_shape={shape} n_pad={n_pad}: "
                               f"evaluating injected policy #{k} gave {got[sb]!r} at state {sb}, the documented "
                               f"iteration of L_pi gives {ref[sb]!r} after {sweeps} sweeps (max err {np.abs(got - ref).max():.3e})")
        if conv and test == "max_diff":
            vp = refmdp.evalpi(P, R, pol, g)
            e = float(np.abs(got - vp).max())
            worst_exact = max(worst_exact, e / (eps / g))
            exact_checked += 1
            if e > eps / g + slack:
                return dict(status="violation", kind="evaluation-accuracy",
                            detail=f"converged max_diff evaluation is {e:.6g} from exact v^pi (> eps/gamma {eps / g:.6g})")
        # improvement: greedy for the returned values
        pidx = target.policy_indices(res.policy, aspace)
        if len(pidx) != S or (pidx < 0).any():
            return dict(status="violation", kind="policy-row", detail="improved policy has a row outside the action space")
        Q = refmdp.q(P, R, g, got)
        lack = Q.max(1) - Q[np.arange(S), pidx]
        if (lack > 1e-9 * (1 + np.abs(Q).max())).any():
            return dict(status="violation", kind="not-greedy",
                        detail=f"improvement step is not greedy for the evaluated values at state {int(np.argmax(lack))}")
        judged += 1

    # (b) termination <=> policy stability, on fresh instances
    K = 300
    b = target.make_solver("pi", problem, **kw)
    rb = target.solve(b, K)
    N = int(rb.info.iteration)
    term = "capped"
    if N < K:
        term = "terminated"
        vb = target.np_values(rb.values)
        pb = target.policy_indices(rb.policy, aspace)
        Q = refmdp.q(P, R, g, vb)
        lack = Q.max(1) - Q[np.arange(S), pb]
        if (lack > 1e-9 * (1 + np.abs(Q).max())).any():
            return dict(status="violation", kind="termination-not-greedy",
                        detail=f"policy iteration stopped at iteration {N} but the returned policy is not greedy "
                               f"for the returned values (state {int(np.argmax(lack))})")
        a = target.make_solver("pi", problem, **kw)
        seq = [np.asarray(a.policy)]
        for _ in range(N):
            ra = target.solve(a, 1)
            seq.append(np.asarray(ra.policy))
        same_final = (np.array_equal(np.asarray(ra.policy), np.asarray(rb.policy))
                      and np.array_equal(np.asarray(ra.values), np.asarray(rb.values)))
        if same_final:
            if not np.array_equal(seq[-1], seq[-2]):
                nd = int((seq[-1] != seq[-2]).any(axis=1).sum())
                return dict(status="violation", kind="termination-unstable",
                            detail=f"policy iteration stopped at iteration {N} although the last improvement "
                                   f"changed the action vector of {nd} state(s)")
            for j in range(1, N):
                if np.array_equal(seq[j], seq[j - 1]):
                    return dict(status="violation", kind="termination-late",
                                detail=f"improvement {j} changed no state, yet iteration continued to {N}")
        else:
            term = "terminated-twin-differs"
        if budget >= AMPLE:
            m = refmdp.policy_measure(P, R, g, vb, pb, test)
            if m >= thr and not common.near(m, thr):
                return dict(status="violation", kind="termination-eval",
                            detail=f"ample budget, yet returned values fail the evaluation test for the returned "
                                   f"policy: {m:.6g} >= {thr:.6g}")
    if judged == 0:
        return dict(status="skip", reason="all_injections_near_threshold")
    bclass = "ample" if budget >= AMPLE else f"b{budget}"
    return dict(status="ok", n_obs=judged, near_skipped=nearskip, exact_checked=exact_checked,
                worst_exact_ratio=worst_exact, term=term, adim=len(t["abox"]) if "abox" in t else 1,
                cls=[struct, f"adim{case['spec']['adim']}", test, bclass, "reset" if case["reset"] else "carry",
                     part, ipc],
                batch_shape=list(shape), n_pad=n_pad)


def aggregate(records, cases):
    ok = [r for r in records if r["status"] == "ok"]
    return dict(evaluations_judged=sum(r["n_obs"] for r in ok),
                exact_accuracy_checks=sum(r["exact_checked"] for r in ok),
                worst_exact_ratio=max((r["worst_exact_ratio"] for r in ok), default=None),
                terminations=sum(1 for r in ok if r["term"] == "terminated"),
                terminations_twin_differs=sum(1 for r in ok if r["term"] == "terminated-twin-differs"),
                two_component_action_cases=sum(1 for r in ok if r["cls"][1] == "adim2"),
                custom_initial_policy_cases=sum(1 for r in ok if r["cls"][6] == "custom"),
                near_threshold_injections_skipped=sum(r["near_skipped"] for r in ok))


def coverage_check(records, cases, tier):
    a = aggregate(records, cases)
    k = 1 if tier == "quick" else 10
    if a["evaluations_judged"] < 1200 * k:
        return f"only {a['evaluations_judged']} injected evaluations judged"
    if a["terminations"] < 70 * k:
        return f"only {a['terminations']} terminated runs with a stepped twin"
    if a["two_component_action_cases"] < 20 * k:
        return "too few cases with 2-component actions"
    if a["custom_initial_policy_cases"] < 15 * k:
        return "too few cases with a problem-supplied initial policy"
    return None
