"""C14 - shipped problems are closed and their state index is consistent.

Monitor shape: reference model over the *complete* state x action x event table of each
parameterisation (vmapped public functions of the real problem): documented space sizes/sets, no duplicate rows, index(row i)==i, every positive-probability successor is a listed state its index points back to.
"""

from vf import shipgen

LEVEL = "exploration"
TECHNIQUE = "complete-table oracle per parameterisation: the real problem's public functions vmapped over every (state, action, event) and compared with an independent scalar/closed-form model"
COUNT_OBS_AS_EVALUATIONS = False
RULE = ("cases = parameterisations of forest / De Moor / Hendrix / Mirjalili accepted by their config validation: fixed corner "
        "settings plus random draws (useful life 1..5, lead time 1..4, order limits 1..4, demand limits 1..12, gamma mean/CoV and "
        "negative-binomial n/delta over two decades, Poisson means 0.5..30, substitution probability {0,.3,.5,1}, logit "
        "coefficients of both signs, fire probability {0,1e-6,.1,.5,1}), each with its complete table (<= 2.5e5 entries quick, "
        "1e6 thorough); one case in three is followed IN THE SAME PROCESS by 1-2 sibling instances with the same structure but "
        "other cost / distribution parameters (results must not depend on what was built or traced before). evaluations = parameterisations; n_obs = table entries / triples judged; distinct = distinct "
        "(problem, parameter class, size class).")
ASSUMPTIONS = ["vf.refproblems (pure Python / scipy closed forms, written from the docstrings) is the documented model",
               "64-bit mode is enabled before the problem is built, except in the nine no_x64 parameterisations (all-integer structure only)",
               "sizes are capped; larger parameterisations are not explored"]
MIN_DECIDING = {"quick": 30, "thorough": 250}
SHARD_TIMEOUT = {"quick": 2400, "thorough": 12000}
TARGET_SHARDS = {"quick": 64, "thorough": 128}


# bounds at which float32 arithmetic (64-bit mode off, the state a problem is built in before any solver exists)
# stops being exact for some formulations; the structure checked here is all-integer, so it must hold there too
NO_X64 = [
    ("de_moor", dict(max_useful_life=1, lead_time=1, max_order_quantity=41, max_demand=3)),
    ("de_moor", dict(max_useful_life=1, lead_time=1, max_order_quantity=47, max_demand=2)),
    ("de_moor", dict(max_useful_life=1, lead_time=2, max_order_quantity=55, max_demand=1)),
    ("de_moor", dict(max_useful_life=2, lead_time=1, max_order_quantity=4, max_demand=10)),
    ("hendrix", dict(max_useful_life=1, max_order_quantity_a=41, max_order_quantity_b=1)),
    ("hendrix", dict(max_useful_life=2, max_order_quantity_a=3, max_order_quantity_b=3)),
    ("mirjalili", dict(max_useful_life=1, max_order_quantity=61, max_demand=2,
                       useful_life_at_arrival_distribution_c_0=[], useful_life_at_arrival_distribution_c_1=[])),
    ("mirjalili", dict(max_useful_life=2, max_order_quantity=41, max_demand=1,
                       useful_life_at_arrival_distribution_c_0=[0.5], useful_life_at_arrival_distribution_c_1=[0.1])),
    ("forest", dict(S=97, r1=4.0, r2=2.0, p=0.1)),
]


def gen_cases(seed, tier):
    cases = shipgen.cases(seed, tier, 14)
    return cases + [dict(name=nm, params=p, devices=1, no_x64=True) for nm, p in NO_X64]


def run_case(case):
    from vf import shipcheck

    return shipcheck.run_with_siblings(case, shipcheck.c14)


def aggregate(records, cases):
    ok = [r for r in records if r["status"] in ("ok", "known")]
    per = {}
    for r in ok:
        per[r["cls"][0]] = per.get(r["cls"][0], 0) + 1
    out = dict(parameterisations_per_problem=per, table_entries_judged=sum(r.get("n_obs", 0) for r in ok),
               instances_built=sum(r.get("instances", 1) for r in ok),
               cases_with_sibling_instances=sum(1 for r in ok if r.get("instances", 1) > 1))
    for k in ("worst_dev", "worst_err", "undefined"):
        vals = [r[k] for r in ok if r.get(k) is not None and r["status"] == "ok"]
        if vals:
            out[k if k != "undefined" else "triples_undefined_by_model"] = (sum(vals) if k == "undefined" else max(vals))
    return out


def coverage_check(records, cases, tier):
    per = aggregate(records, cases)["parameterisations_per_problem"]
    for nm in ("forest", "de_moor", "hendrix", "mirjalili"):
        if per.get(nm, 0) < (4 if tier == "quick" else 30):
            return f"only {per.get(nm, 0)} parameterisations of {nm} judged"
    return None
