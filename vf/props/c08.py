"""C08 - stopping rule, iteration accounting and composability of solve().

Monitor shape: history + executable model.  A random history of solve(k) calls is applied to
one real solver; after every call the reported iteration, the stop/continue decision and the
returned values are compared with a numpy reference trajectory that applies the documented
rule to the problem's own initial estimates.  Histories whose every call but the last ended at
its limit are replayed on a twin instance as a single solve(sum k) and compared bit for bit.
"""

import numpy as np

from vf import common, gen, refmdp, refsolve

SIBLING_EVERY = 3      # every n-th case is followed by a same-shape sibling problem/solver in the same process (vf/worker.py)
LEVEL = "exploration"
TECHNIQUE = "history monitor: every solve() call of a random call sequence checked against a numpy reference trajectory and the documented stop rule; composed vs single-call twin"
COUNT_OBS_AS_EVALUATIONS = False
RULE = ("cases = generated MDP x solver (vi span/max_diff, relative, periodic, semi-async fixed order) x "
        "gamma (incl. 1) x epsilon x a history of 1-6 solve(k) calls with k in 1..15 (some crossing the "
        "convergence point, some continuing after it). Deciding = every call of the history reached the "
        "comparison outside the near-threshold band; n_obs = solve() calls judged. distinct = distinct "
        "(solver/test, gamma class, history class, structure); history class in {single, multi, "
        "crosses-convergence, continues-after-convergence}.")
ASSUMPTIONS = ["vf.refsolve numpy trajectories implement the documented rule (threshold eps*(1-g)/g, or "
               "eps when g==1 / relative / periodic)",
               "decisions within a relative band of 1e-7 (+fp noise) of the threshold are not judged",
               "composition compared within one process / platform (bitwise)"]
MIN_DECIDING = {"quick": 150, "thorough": 1500}
SHARD_TIMEOUT = {"quick": 1800, "thorough": 9000}

KINDS = [("vi", "span"), ("vi", "max_diff"), ("rvi", "span"), ("per", "span"), ("sa", "span"), ("sa", "max_diff"),
         ("pi", "max_diff"), ("sas", "max_diff")]   # sas = semi-async with state shuffling (orders from the C06 hook)


def gen_cases(seed, tier):
    rng = np.random.default_rng([seed, 8])
    n = 260 if tier == "quick" else 2600
    devs = [1, 1, 1, 2, 3] if tier == "quick" else [1, 1, 1, 2, 4]
    cases = []
    for i in range(n):
        kind, test = KINDS[int(rng.integers(0, len(KINDS)))]
        avg = "unichain" if (kind == "rvi" or rng.random() < 0.25) else None
        spec = gen.random_spec(rng, smin=2, smax=30, avg=avg)
        if rng.random() < 0.15:
            spec["S"] = int(rng.choice([65, 70, 97, 129]))
        if spec["init"] == "far":
            spec["init"] = "random"
        if kind == "rvi":
            g = 1.0
        elif avg == "unichain" and kind in ("vi", "per"):
            g = 1.0 if rng.random() < 0.6 else float(rng.choice([0.5, 0.9]))
        else:
            # incl. discount factors a hair below 1 (the threshold eps*(1-g)/g is then tiny: no early stop)
            g = float(rng.choice([0.3, 0.5, 0.8, 0.9, 0.95, 0.99999, 0.999995, 1 - 1e-7, 1 - 1e-9]))
        period = int(rng.integers(2, 5)) if (kind == "per" and g == 1.0) else int(rng.integers(1, 5))
        eps = float(spec["scale"] * 10.0 ** rng.uniform(-3, 1))
        ncalls = int(rng.integers(1, 7))
        hist = [int(rng.integers(1, 16)) for _ in range(ncalls)]
        cases.append(dict(kind="gen", spec=spec, solver=kind, test=test, gamma=g, epsilon=eps, period=period,
                          history=hist, max_batch_size=common.batch_choices(rng, spec["S"]),
                          clear=bool(rng.integers(0, 2)), devices=int(rng.choice(devs))))
    # exact-arithmetic cases: the measure lands EXACTLY on the threshold at some sweep ("never reports convergence
    # while the measure is at or above it"); epsilon is fixed in the worker from the exact reference trajectory
    ne = 30 if tier == "quick" else 300
    for i in range(ne):
        kind, test = [("vi", "span"), ("vi", "max_diff"), ("sa", "span"), ("sa", "max_diff"), ("per", "span"), ("rvi", "span")][i % 6]
        avg = "unichain" if kind in ("rvi", "per") else None
        spec = gen.random_spec(rng, smin=2, smax=12, avg=avg, amax=4)
        spec.update(dyadic=True, E=int(rng.choice([2, 4])), scale=1.0, init="none", intrew=False)
        if spec["structure"] in ("determ", "dag"):
            spec["structure"] = "dense"
        g = 1.0 if kind == "rvi" else (float(rng.choice([0.5, 1.0])) if kind == "per" else 0.5)
        period = int(rng.integers(2, 4)) if kind == "per" else 1
        first = int(rng.integers(1, 8))
        cases.append(dict(kind="gen", spec=spec, solver=kind, test=test, gamma=g, epsilon=None, exact_at=int(rng.integers(3, 10)),
                          period=period, history=[first, 30] if i % 2 else [40],
                          max_batch_size=common.batch_choices(rng, spec["S"]), clear=False, devices=1))
    return cases


def _exact_epsilon(kind, test, P, R, g, v0, period, shape, want):
    """-> (epsilon, n_star): epsilon such that the threshold equals the measure of sweep n_star exactly, where no
    earlier sweep is below it and the next one is; None when this MDP offers no such sweep within the exact range."""
    tr = refsolve.Trajectory(kind, P, R, g, v0, test=test, period=period, partition=shape)
    for _ in range(13):
        tr.step()
    lo = period if kind == "per" else 1
    for n in list(range(want, 12)) + list(range(want - 1, lo - 1, -1)):
        m = tr.meas[n]
        if not (np.isfinite(m) and m > 0 and tr.meas[n + 1] < m and all(tr.meas[j] >= m for j in range(lo, n))):
            continue
        # exactness: every iterate up to n+1 is a multiple of 2^-44 below 2^8 (so nothing was, or will be, rounded)
        its = np.array(tr.iter[: n + 2])
        if np.abs(its).max() < 256 and np.all(np.mod(its * 2.0 ** 44, 1.0) == 0) and np.mod(m * 2.0 ** 44, 1.0) == 0:
            return float(m), n            # g in {0.5, 1}: threshold eps*(1-g)/g == eps, or eps itself
    return None, None


def run_case(case):
    from vf import target

    problem, nxt, rew, prob, scale, struct, iface, t = common.build_problem(case)
    P, R = refmdp.tables(nxt, rew, prob)
    S = R.shape[0]
    kind, test, g, eps = case["solver"], case["test"], case["gamma"], case["epsilon"]
    if eps is None:
        eps = 1.0           # exact-arithmetic case: placeholder until the boundary sweep is known (see below)
    kw = dict(gamma=g, epsilon=eps, max_batch_size=case["max_batch_size"])
    shuffled = kind == "sas"
    if shuffled:
        kind = "sa"
    if kind in ("vi", "sa", "pi"):
        kw["convergence_test"] = test
    if kind == "pi":
        return _pi_history(case, problem, kw, P, R, struct)
    if kind == "rvi":
        kw.pop("gamma")
    if kind == "per":
        kw.update(period=case["period"], clear_value_history_on_convergence=case["clear"])
    if kind == "sa":
        kw.update(shuffle_states=shuffled, random_seed=int(case["spec"]["gseed"]) % 100000)

    def mk():
        return target.make_solver(kind, problem, **kw)

    s = mk()
    shape, n_pad, part = common.partition_class(s)
    v0 = np.zeros(S) if t.get("init") is None else np.asarray(t["init"], dtype=float)
    exact = bool(case["spec"].get("dyadic"))
    n_star = None
    if exact:
        eps, n_star = _exact_epsilon(kind, test, P, R, g, v0, case.get("period"), shape, case["exact_at"])
        if eps is None:
            return dict(status="skip", reason="no_exact_boundary_sweep")
        kw["epsilon"] = eps
        s = mk()
    thr = eps if (g == 1.0 or kind in ("rvi", "per")) else eps * (1 - g) / g
    traj = refsolve.Trajectory(kind, P, R, g, v0, test=test, period=case.get("period"), partition=shape)
    vmag0 = float(np.abs(v0).max())
    got0 = target.np_values(s.values)
    if np.abs(got0 - v0).max() > 1e-9 * (1 + vmag0):
        return dict(status="violation", kind="initial-values",
                    detail=f"{kind}: initial estimates differ from the problem's initial_value by "
                           f"{np.abs(got0 - v0).max():.3e} (state {int(np.argmax(np.abs(got0 - v0)))})")
    n_calls = 0
    converged_before = False
    crossed = False
    after_conv = False
    all_capped = True
    for ci, k in enumerate(case["history"]):
        it0 = int(s.iteration)
        if it0 != traj.n:
            return dict(status="error", detail="harness: reference out of sync")
        if converged_before:
            after_conv = True
        res = target.solve(s, k)
        it1 = int(res.info.iteration)
        if it1 - it0 > k or it1 - it0 < 1:
            return dict(status="violation", kind="limit",
                        detail=f"{kind}: solve({k}) advanced iteration from {it0} to {it1}")
        near = False
        stopped = False
        orders = getattr(s, "_verif_sweep_orders", None) if shuffled else None
        if shuffled and (orders is None or len(orders) != it1):
            return dict(status="error", detail="hook record of sweep orders missing or of wrong length")
        for j in range(k):
            if shuffled and traj.n >= len(orders):
                break
            _, m = traj.step(order=np.asarray(orders[traj.n]).astype(int) if shuffled else None)
            if not exact and refsolve.near_threshold(m, thr, traj.noise(traj.n)):
                near = True
                break
            if m < thr:
                stopped = True
                break
        if near:
            if n_calls == 0:
                return dict(status="skip", reason="near_threshold")
            break
        if it1 != traj.n:
            m_at = traj.meas[it1] if it1 < len(traj.meas) else None
            return dict(status="violation", kind="stop-decision",
                        detail=f"{kind}/{test} g={g} eps={eps:.6g} thr={thr:.6g}: call {ci} solve({k}) from "
                               f"iteration {it0} returned at iteration {it1}; the documented rule stops at "
                               f"{traj.n} (reference measure there {traj.meas[traj.n]:.6g}"
                               + (f", at {it1}: {m_at:.6g}" if m_at is not None else "") + ")")
        got = target.np_values(res.values)
        ref = traj.iter[it1]
        mag = 1.0 + float(np.abs(ref).max()) + scale
        d = got - ref
        err = float(d.max() - d.min()) if kind == "rvi" else float(np.abs(d).max())
        if got.shape != (S,) or not err <= 1e-9 * mag:
            return dict(status="violation", kind="accounting",
                        detail=f"{kind}/{test} g={g}: after call {ci} (iteration {it1}) values differ from "
                               f"{it1} reference sweeps of the initial estimates by {err:.3e} "
                               f"(batch_shape {shape}, n_pad {n_pad})")
        n_calls += 1
        if stopped:
            if not converged_before:
                crossed = crossed or (ci > 0 or True)
            converged_before = True
            if ci < len(case["history"]) - 1:
                all_capped = False
            if kind == "per" and case["clear"]:
                break  # the solver dropped its history; a further call is outside the statement
        elif ci < len(case["history"]) - 1 and it1 - it0 != k:
            all_capped = False
    # composition: first calls ended at their limits -> must equal one call with the summed limit
    composed = None
    hist_done = case["history"][:n_calls]
    if n_calls >= 2 and all_capped and not near:
        twin = mk()
        r2 = target.solve(twin, int(sum(hist_done)))
        a = s.solver_state
        same = (int(r2.info.iteration) == int(a.info.iteration)
                and np.array_equal(np.asarray(r2.values), np.asarray(a.values))
                and np.array_equal(np.asarray(r2.policy), np.asarray(a.policy)))
        if not same:
            return dict(status="violation", kind="composition",
                        detail=f"{kind}/{test}: solve({hist_done}) in sequence != solve({sum(hist_done)}) "
                               f"(iterations {int(a.info.iteration)} vs {int(r2.info.iteration)}, max value "
                               f"difference {np.abs(np.asarray(r2.values, dtype=float) - np.asarray(a.values, dtype=float)).max():.3e})")
        composed = True
    hclass = ("continues-after-convergence" if after_conv else
              "crosses-convergence" if converged_before else
              "multi" if n_calls > 1 else "single")
    on_boundary = bool(exact and n_star is not None and traj.n > n_star and traj.meas[n_star] == thr)
    return dict(status="ok", n_obs=n_calls, composed=bool(composed), exact_boundary=on_boundary,
                cls=[f"{'sas' if shuffled else kind}/{test}" + ("/exact" if exact else ""), "g=1" if g == 1.0 else gen.gamma_bucket(g), hclass, struct],
                batch_shape=list(shape), n_pad=n_pad)


def _pi_history(case, problem, kw, P, R, struct):
    """Policy iteration: solve(k) advances at most k iterations, stops only on policy stability, and a
    history whose calls ended at their limits equals the single call (bit for bit)."""
    from vf import target

    kw = dict(kw, max_eval_iter=int(case["period"]) * 5,
              reset_values_for_each_policy_eval=bool(case["history"][0] % 2))
    s = target.make_solver("pi", problem, **kw)
    aspace = np.asarray(problem.action_space)
    n_calls = 0
    all_capped = True
    hist = []
    prev_pol = np.asarray(s.policy)
    for ci, k in enumerate(case["history"][:3]):
        k = min(k, 3)
        it0 = int(s.iteration)
        res = target.solve(s, k)
        it1 = int(res.info.iteration)
        if it1 - it0 > k or it1 - it0 < 1:
            return dict(status="violation", kind="limit", detail=f"pi: solve({k}) advanced iteration from {it0} to {it1}")
        hist.append(k)
        n_calls += 1
        if it1 - it0 < k:
            all_capped = False
            break
    composed = False
    if n_calls >= 2 and all_capped:
        twin = target.make_solver("pi", problem, **kw)
        r2 = target.solve(twin, int(sum(hist)))
        a = s.solver_state
        if int(r2.info.iteration) == int(sum(hist)):
            if not (np.array_equal(np.asarray(r2.values), np.asarray(a.values))
                    and np.array_equal(np.asarray(r2.policy), np.asarray(a.policy))
                    and int(a.info.iteration) == int(r2.info.iteration)):
                return dict(status="violation", kind="composition",
                            detail=f"pi: solve({hist}) in sequence != solve({sum(hist)})")
            composed = True
    return dict(status="ok", n_obs=n_calls, composed=composed,
                cls=["pi/max_diff", gen.gamma_bucket(case["gamma"]), "multi" if n_calls > 1 else "single", struct],
                batch_shape=[0, 0, 0], n_pad=0)


def aggregate(records, cases):
    ok = [r for r in records if r["status"] == "ok"]
    hc = {}
    for r in ok:
        hc[r["cls"][2]] = hc.get(r["cls"][2], 0) + 1
    return dict(solve_calls_judged=sum(r["n_obs"] for r in ok),
                composition_pairs=sum(1 for r in ok if r.get("composed")),
                exact_boundary_cases=sum(1 for r in ok if r.get("exact_boundary")),
                history_classes=hc)


def coverage_check(records, cases, tier):
    ok = [r for r in records if r["status"] == "ok"]
    calls = sum(r["n_obs"] for r in ok)
    comp = sum(1 for r in ok if r.get("composed"))
    need_calls, need_comp = (500, 40) if tier == "quick" else (5000, 400)
    if calls < need_calls:
        return f"only {calls} solve() calls judged (< {need_calls})"
    if comp < need_comp:
        return f"only {comp} composition pairs (< {need_comp})"
    nb = sum(1 for r in ok if r.get("exact_boundary"))
    if nb < (10 if tier == "quick" else 100):
        return f"only {nb} cases in which the measure equalled the threshold exactly"
    hc = {r["cls"][2] for r in ok}
    for h in ("crosses-convergence", "continues-after-convergence", "multi"):
        if h not in hc:
            return f"history class {h} never observed"
    return None
