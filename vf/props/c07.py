"""C07 - periodic value iteration: plain VI iterates with the documented period-span stop.

Monitor shape: reference model.  Real PeriodicValueIteration runs are compared with a numpy
trajectory V_n = L^n v0 and the documented measures; the stop iteration, the returned values,
the circular value history and (gamma = 1, unichain) the per-period gain are judged.
"""

import numpy as np

from vf import common, gen, refmdp, refsolve

SIBLING_EVERY = 3      # every n-th case is followed by a same-shape sibling problem/solver in the same process (vf/worker.py)
LEVEL = "exploration"
TECHNIQUE = "reference-model oracle: numpy value iterates + documented period-span rule vs the real solver's stop iteration, values, history buffer and gain"
RULE = ("cases = generated MDP (dense/sparse/... classes; for gamma=1 unichain aperiodic chains and exactly "
        "periodic chains of period 2-4) x solver period in {1,2,3,4,7,12} (multiples of the chain period for "
        "periodic chains) x gamma in {1,.99,.9,.5} x epsilon x history clearing on/off x batch size. Deciding = "
        "the run finished and every sweep's reference measure was outside the near-threshold/noise band. "
        "distinct = distinct (chain class, period, gamma, stop class, wraps>=5?) ; non-trivial = stopped by "
        "the rule after at least `period` sweeps or provably not allowed to stop within the cap.")
ASSUMPTIONS = ["vf.refsolve numpy trajectory + documented measure (gamma=1: span(V_n - V_{n-p}); gamma<1: span of "
               "sum_j (V_j - V_{j-1})/gamma^(j-1)) is the specification",
               "optimal gain from average-reward policy iteration cross-checked by an LP (scipy HiGHS)",
               "sweeps whose measure is within fp noise of epsilon are not judged"]
MIN_DECIDING = {"quick": 90, "thorough": 900}
SHARD_TIMEOUT = {"quick": 1800, "thorough": 9000}


def gen_cases(seed, tier):
    rng = np.random.default_rng([seed, 7])
    n = 200 if tier == "quick" else 2000
    devs = [1, 1, 1, 2, 3] if tier == "quick" else [1, 1, 1, 2, 4]
    cases = []
    for i in range(n):
        u = rng.random()
        if u < 0.3:
            # exactly periodic chains: undiscounted, and discounted with gamma a hair below 1 (there the
            # documented discounted measure still collapses after one period, the undiscounted one does not)
            avg, g = "periodic", float(rng.choice([1.0, 1.0, 0.99999, 1 - 1e-7, 0.999]))
        elif u < 0.55:
            avg, g = "unichain", 1.0
        else:
            avg, g = None, float(rng.choice([0.99, 0.9, 0.5, 0.999999, 1 - 1e-9]))
        spec = gen.random_spec(rng, smin=2, smax=24, avg=avg)
        if spec["init"] == "far":
            spec["init"] = "random"
        if avg == "periodic":
            period = spec["chain_period"] * int(rng.choice([1, 2]))
        else:
            period = int(rng.choice([1, 2, 3, 4, 7, 12, 12, 70, 200]))   # incl. periods longer than the run
            if g == 1.0 and period < 2:
                period = 2
        eps = float(spec["scale"] * 10.0 ** rng.uniform(-5, 0))
        cases.append(dict(kind="gen", spec=spec, gamma=g, epsilon=eps, period=period,
                          clear=bool(rng.random() < 0.3), cap=int(rng.choice([60, 150, 400])),
                          max_batch_size=common.batch_choices(rng, spec["S"]), devices=int(rng.choice(devs))))
    return cases


def run_case(case):
    from vf import target

    problem, nxt, rew, prob, scale, struct, iface, t = common.build_problem(case)
    P, R = refmdp.tables(nxt, rew, prob)
    S = R.shape[0]
    g, eps, p, cap = case["gamma"], case["epsilon"], case["period"], case["cap"]
    s = target.make_solver("per", problem, gamma=g, epsilon=eps, period=p,
                           clear_value_history_on_convergence=case["clear"],
                           max_batch_size=case["max_batch_size"])
    shape, n_pad, part = common.partition_class(s)
    v0 = np.zeros(S) if t.get("init") is None else np.asarray(t["init"], dtype=float)
    traj = refsolve.Trajectory("per", P, R, g, v0, period=p)
    stop = None
    for n in range(1, cap + 1):
        _, m = traj.step()
        if n >= p and refsolve.near_threshold(m, eps, traj.noise(n)):
            return dict(status="skip", reason="near_threshold_or_unstable_measure")
        if m < eps:
            stop = n
            break
    exp = stop if stop is not None else cap
    avgc = case["spec"].get("avg") or "discounted"
    split = None
    if case["case_id"] % 3 == 1 and exp >= 3:
        # the same run as two solve() calls: the first ends at its limit shortly before the documented stop (history
        # and index must carry over), at an iteration that is not a multiple of period + 1
        split = max(1, exp - 1 - (case["case_id"] // 3) % max(p, 1))
        if split % (p + 1) == 0 and split > 1:
            split -= 1
        r1 = target.solve(s, split)
        if int(r1.info.iteration) != split:
            return dict(status="violation", kind="stop-decision",
                        detail=f"period={p} g={g} eps={eps:.6g} [{avgc}]: solve({split}) returned at iteration {int(r1.info.iteration)}; "
                               f"the documented rule gives {'stop at ' + str(stop) if stop else 'no stop within ' + str(cap)}")
        res = target.solve(s, cap - split)
    else:
        res = target.solve(s, cap)
    it = int(res.info.iteration)
    if it < p and stop is not None and it != exp:
        return dict(status="violation", kind="stop-before-period",
                    detail=f"period={p} g={g}: stopped at iteration {it} < period")
    if it != exp:
        return dict(status="violation", kind="stop-decision",
                    detail=f"period={p} g={g} eps={eps:.6g} [{avgc}]{' [run split into solve(%d) + solve(%d)]' % (split, cap - split) if split else ''}: solver stopped at iteration {it}, the "
                           f"documented rule gives {'stop at ' + str(stop) if stop else 'no stop within ' + str(cap)} "
                           f"(reference measure at {min(it, traj.n)}: {traj.meas[min(it, traj.n)]}, "
                           f"at {exp}: {traj.meas[exp]})")
    got = target.np_values(res.values)
    ref = traj.iter[it]
    mag = 1.0 + float(np.abs(ref).max()) + scale
    if got.shape != (S,) or np.abs(got - ref).max() > 1e-9 * mag:
        return dict(status="violation", kind="iterates",
                    detail=f"period={p} g={g}: values after {it} sweeps differ from L^{it} v0 by "
                           f"{np.abs(got - ref).max():.3e}")
    pidx = target.policy_indices(res.policy, np.asarray(problem.action_space))
    if (pidx < 0).any():
        return dict(status="violation", kind="policy-row", detail="policy row outside the action space")
    Q = refmdp.q(P, R, g, ref)
    lack = Q.max(1) - Q[np.arange(S), pidx]
    if (lack > 1e-9 * (1 + np.abs(Q).max())).any():
        return dict(status="violation", kind="not-greedy",
                    detail=f"returned policy is not greedy for the returned values at state {int(np.argmax(lack))}")
    # circular history buffer
    hist = res.info.value_history
    cleared = hist is None
    if case["clear"] and stop is not None:
        if not cleared:
            return dict(status="violation", kind="history", detail="history not cleared on convergence although requested")
    else:
        if cleared:
            return dict(status="violation", kind="history",
                        detail="value history missing although clearing was not requested / run did not converge")
        H = np.asarray(hist, dtype=float)
        hi = int(res.info.history_index)
        if H.shape != (p + 1, S) or int(res.info.period) != p:
            return dict(status="violation", kind="history", detail=f"history shape {H.shape} / period {res.info.period}")
        for j in range(min(p, it) + 1):
            slot = (hi - j) % (p + 1)
            if np.abs(H[slot] - traj.iter[it - j]).max() > 1e-9 * mag:
                return dict(status="violation", kind="history",
                            detail=f"period={p}: history slot {slot} (index {hi} - {j}) does not hold V_{it - j}")
    # gain claim (gamma = 1, unichain, converged)
    gain_ratio = None
    if g == 1.0 and stop is not None and case["spec"].get("avg") in ("unichain", "periodic"):
        g1, _, _ = refmdp.avg_pi(P, R)
        g2 = refmdp.lp_gain(P, R)
        if g2 is None or abs(g1 - g2) > 1e-8 * (1 + abs(g1)):
            return dict(status="skip", reason="ill_conditioned_gain")
        d = (traj.iter[it] - traj.iter[it - p]) / p
        dev = float(np.abs((got - ref) / p + d - g1).max())
        gain_ratio = dev / (eps / p)
        if dev > eps / p + 1e-9 * (1 + abs(g1) + scale):
            return dict(status="violation", kind="gain",
                        detail=f"period={p}: component of (V_n - V_(n-p))/p is {dev:.6g} from g*={g1:.6g}, "
                               f"allowed eps/period={eps / p:.6g}")
    wraps = it // (p + 1)
    stopc = "stopped" if stop is not None else "no-stop"
    return dict(status="ok", nontrivial=True, iteration=it, wraps=wraps, gain_ratio=gain_ratio,
                cls=[avgc, f"p{p}", f"g={g}", stopc, "wraps>=5" if wraps >= 5 else "wraps<5",
                     "cleared" if cleared else "kept", "two-calls" if split else "one-call"],
                batch_shape=list(shape), n_pad=n_pad)


def aggregate(records, cases):
    ok = [r for r in records if r["status"] == "ok"]
    gr = [r["gain_ratio"] for r in ok if r.get("gain_ratio") is not None]
    return dict(stops=sum(1 for r in ok if r["cls"][3] == "stopped"),
                periodic_chain_stops=sum(1 for r in ok if r["cls"][0] == "periodic" and r["cls"][3] == "stopped"),
                runs_with_5_or_more_buffer_wraps=sum(1 for r in ok if r["wraps"] >= 5),
                gain_checks=len(gr), worst_gain_ratio=max(gr) if gr else None)


def coverage_check(records, cases, tier):
    a = aggregate(records, cases)
    k = 1 if tier == "quick" else 10
    if a["stops"] < 50 * k:
        return f"only {a['stops']} rule-driven stops (< {50 * k})"
    if a["periodic_chain_stops"] < 10 * k:
        return f"only {a['periodic_chain_stops']} stops on exactly periodic chains"
    if a["runs_with_5_or_more_buffer_wraps"] < 5 * k:
        return "too few runs wrapping the history buffer >= 5 times"
    return None
