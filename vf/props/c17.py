"""C17 - explicit matrices describe the same MDP as the functional description.

Monitor shape: reference model.  ``build_transition_and_reward_matrices`` of the real Problem base
class is called on generated and shipped problems; the returned (P, R) are compared with matrices
accumulated independently in numpy, solved with an independent solver and compared with the real
functional ValueIteration; defective variants (one or several state-action pairs whose mass is off
by 2x / 0.5x the tolerance) exercise the error path.
"""

import re

import numpy as np

from vf import common, gen, refmdp, shipped

LEVEL = "exploration"
TECHNIQUE = "reference-model oracle: numpy scatter-add accumulation vs the real matrix builder; independent solve of the returned matrices vs the functional solver; fault-injected probability tables for the error path"
RULE = ("cases = generated MDP (several events -> one successor, single event, sparse, absorbing, duplicate actions, "
        "1-element-array probabilities, vector states, permuted listing order) or reduced shipped problem x tolerance in "
        "{1e-2,1e-4,1e-8} x variant in {exact, k pairs off by 0.5*tol (must be accepted), k pairs off by 2*tol (must raise "
        "ValueError naming a deviating pair)}. distinct = distinct (structure, interface class, tolerance, variant).")
ASSUMPTIONS = ["vf.refmdp.tables (numpy add.at) is the specification of accumulation",
               "deviations are injected a factor 2 away from the tolerance so rounding cannot flip the decision",
               "Hendrix' own truncation deficit (C13) is excluded: Hendrix is only used with tolerances above its deficit"]
MIN_DECIDING = {"quick": 70, "thorough": 700}
SHARD_TIMEOUT = {"quick": 1800, "thorough": 9000}


def gen_cases(seed, tier):
    rng = np.random.default_rng([seed, 17])
    n = 130 if tier == "quick" else 1300
    cases = []
    for i in range(n):
        spec = gen.random_spec(rng, smin=2, smax=24, amax=4, emax=5)
        spec["structure"] = str(rng.choice(["samesucc", "sparse", "determ", "dense", "absorbing", "dupaction", "ties"]))
        if spec["structure"] == "determ":
            spec["E"] = 1
        elif spec["E"] < 2:
            spec["E"] = 2
        variant = str(rng.choice(["exact", "exact", "within", "beyond", "beyond"]))
        cases.append(dict(kind="gen", spec=spec, tol=float(rng.choice([1e-2, 1e-4, 1e-8])), variant=variant,
                          npairs=int(rng.choice([1, 1, 3])), sign=int(rng.choice([-1, 1])),
                          dseed=int(rng.integers(0, 2**31 - 1)), gamma=float(rng.choice([0.5, 0.9])), devices=1,
                          solve=bool(rng.random() < 0.5)))
    for name, params in shipped.SMALL:
        cases.append(dict(kind="shipped", name=name, params=params, tol=1e-4, variant="exact", gamma=0.9,
                          devices=1, solve=True))
    return cases


def run_case(case):
    from vf import tabular, target

    tol = case["tol"]
    variant = case["variant"]
    dev_pairs = []
    if case["kind"] == "gen":
        spec = case["spec"]
        t = gen.build(spec)
        S, A, E = t["nxt"].shape
        if variant != "exact":
            r = np.random.default_rng(case["dseed"])
            factor = 0.5 if variant == "within" else 2.0
            chosen = set()
            for _ in range(case["npairs"]):
                sa = (int(r.integers(0, S)), int(r.integers(0, A)))
                if sa in chosen:
                    continue
                chosen.add(sa)
                t["prob"][sa[0], sa[1], :] *= 1.0 + case["sign"] * factor * tol
                dev_pairs.append(sa)
        problem = target.call("construct problem", tabular.make, spec, t)
        nxt, rew, prob, scale = t["nxt"], t["rew"], t["prob"], float(spec["scale"])
        struct, iface = spec["structure"], list(gen.interface_class(spec, t))
    else:
        problem, nxt, rew, prob, scale, struct, iface, t = common.build_problem(case)
        S, A, E = nxt.shape
    Pref, Rref = refmdp.tables(nxt, rew, prob)          # [S,A,S], [S,A]
    rows = Pref.sum(-1)                                   # [S,A]
    devi = np.abs(rows - 1.0)
    if case["kind"] == "shipped" and devi.max() > tol / 2:
        # the problem's own tables deviate (Hendrix truncation, C13): expect the error path
        variant = "own-deficit"
    cls = [struct, iface, f"tol={tol:g}", variant]
    try:
        out = problem.build_transition_and_reward_matrices(normalization_tolerance=tol)
        raised = None
    except ValueError as e:
        raised = str(e)
    except Exception as e:  # noqa: BLE001
        return dict(status="violation", kind="target-exception",
                    detail=f"matrix builder raised {type(e).__name__}: {str(e)[:300]} [{variant}]")
    if variant in ("beyond", "own-deficit"):
        if variant == "own-deficit" and devi.max() <= tol:
            return dict(status="skip", reason="own_deficit_near_tolerance")
        if raised is None:
            return dict(status="violation", kind="no-error",
                        detail=f"pair(s) {dev_pairs or 'of the problem'} deviate from 1 by up to {devi.max():.3g} > tolerance "
                               f"{tol:g}, yet matrices were returned (renormalised) instead of a ValueError")
        m = re.search(r"state (\d+), action (\d+)", raised)
        if not m:
            return dict(status="violation", kind="error-text", detail=f"ValueError does not name a state-action pair: {raised[:200]}")
        s_, a_ = int(m.group(1)), int(m.group(2))
        if not (0 <= s_ < S and 0 <= a_ < A) or devi[s_, a_] <= tol:
            return dict(status="violation", kind="error-names-wrong-pair",
                        detail=f"ValueError names state {s_}, action {a_} whose probabilities sum to "
                               f"{rows[s_, a_] if (0 <= s_ < S and 0 <= a_ < A) else 'n/a'!r}; deviating pairs are "
                               f"{[(int(i), int(j)) for i, j in zip(*np.where(devi > tol))][:5]}")
        if variant == "beyond":
            loose = float(devi.max()) * 4.0
            try:
                o3 = problem.build_transition_and_reward_matrices(normalization_tolerance=loose)
            except Exception as e:  # noqa: BLE001
                return dict(status="violation", kind="spurious-error",
                            detail=f"after a (correct) ValueError at tolerance {tol:g}, the same instance asked with tolerance {loose:.3g} > "
                                   f"deviation {devi.max():.3g} raised {type(e).__name__}: {str(e)[:150]}")
            if np.abs(np.asarray(o3[0], dtype=float).sum(-1) - 1.0).max() > 1e-9:
                return dict(status="violation", kind="row-sum", detail="rows of the second (accepted) call do not sum to one")
        return dict(status="ok", cls=cls, named=[s_, a_], repeat_calls=1 if variant == "beyond" else 0)
    if raised is not None:
        return dict(status="violation", kind="spurious-error",
                    detail=f"largest deviation {devi.max():.3g} <= tolerance {tol:g}, yet ValueError: {raised[:200]}")
    P, R = np.asarray(out[0], dtype=float), np.asarray(out[1], dtype=float)
    if P.shape != (A, S, S) or R.shape != (S, A):
        return dict(status="violation", kind="shape", detail=f"shapes {P.shape}, {R.shape}; expected {(A, S, S)}, {(S, A)}")
    if np.abs(P.sum(-1) - 1.0).max() > 1e-9:
        a_, s_ = np.unravel_index(int(np.argmax(np.abs(P.sum(-1) - 1.0))), (A, S))
        return dict(status="violation", kind="row-sum", detail=f"returned row (action {a_}, state {s_}) sums to {P[a_, s_].sum()!r}")
    Pr = np.transpose(Pref, (1, 0, 2))
    allow = 1e-9 + (2.0 * devi.max() if variant == "within" else 0.0)
    if np.abs(P - Pr).max() > allow:
        a_, s_, n_ = np.unravel_index(int(np.argmax(np.abs(P - Pr))), P.shape)
        return dict(status="violation", kind="P-entry",
                    detail=f"P[action {a_}, state {s_}, successor {n_}] = {P[a_, s_, n_]!r}, total probability of the events "
                           f"leading there is {Pr[a_, s_, n_]!r} [{struct}]")
    if np.abs(R - Rref).max() > 1e-9 * (1 + np.abs(Rref).max()):
        s_, a_ = np.unravel_index(int(np.argmax(np.abs(R - Rref))), R.shape)
        return dict(status="violation", kind="R-entry",
                    detail=f"R[state {s_}, action {a_}] = {R[s_, a_]!r}, expected reward is {Rref[s_, a_]!r}")
    # the same instance is asked again: results must not depend on earlier calls or their tolerances
    again = 0
    if variant == "within":
        strict = float(devi.max()) / 4.0          # the injected deviation is 4x this tolerance
        try:
            problem.build_transition_and_reward_matrices(normalization_tolerance=strict)
            return dict(status="violation", kind="no-error-on-second-call",
                        detail=f"pair(s) {dev_pairs} deviate by {devi.max():.3g}: accepted with tolerance {tol:g} (correct), then the SAME "
                               f"instance was asked again with tolerance {strict:.3g} < deviation and returned matrices instead of a ValueError")
        except ValueError as e:
            m2 = re.search(r"state (\d+), action (\d+)", str(e))
            if not m2 or not (0 <= int(m2.group(1)) < S and 0 <= int(m2.group(2)) < A) \
                    or devi[int(m2.group(1)), int(m2.group(2))] <= strict:
                return dict(status="violation", kind="error-names-wrong-pair", detail=f"second call: {str(e)[:200]}")
        again += 1
    out2 = problem.build_transition_and_reward_matrices(normalization_tolerance=tol * (10.0 if variant == "exact" else 1.0))
    if not (np.array_equal(np.asarray(out2[0]), np.asarray(out[0])) and np.array_equal(np.asarray(out2[1]), np.asarray(out[1]))):
        return dict(status="violation", kind="second-call-differs", detail="a second call on the same instance returned different matrices")
    again += 1
    solved = False
    if case.get("solve") and variant == "exact":
        g = case["gamma"]
        eps = 1e-6 * scale
        vs = refmdp.vstar(np.transpose(P, (1, 0, 2)), R, g)[0]
        s = target.make_solver("vi", problem, gamma=g, epsilon=eps, convergence_test="max_diff")
        res = target.solve(s, 5000)
        if int(res.info.iteration) < 5000:
            verr = float(np.abs(target.np_values(res.values) - vs).max())
            if verr > eps + 1e-9 * (1 + np.abs(vs).max() + scale):
                return dict(status="violation", kind="solve-disagrees",
                            detail=f"optimal values of the returned matrices differ from the functional solver by {verr:.4g} > eps {eps:.4g}")
            solved = True
    return dict(status="ok", cls=cls, solved=solved, repeat_calls=again)


def aggregate(records, cases):
    ok = [r for r in records if r["status"] == "ok"]
    v = {}
    for r in ok:
        v[r["cls"][3]] = v.get(r["cls"][3], 0) + 1
    return dict(by_variant=v, functional_solver_agreements=sum(1 for r in ok if r.get("solved")),
                repeated_calls_on_one_instance=sum(r.get("repeat_calls", 0) for r in ok))


def coverage_check(records, cases, tier):
    a = aggregate(records, cases)
    k = 1 if tier == "quick" else 10
    if a["by_variant"].get("beyond", 0) < 20 * k:
        return f"only {a['by_variant'].get('beyond', 0)} error-path cases"
    if a["by_variant"].get("exact", 0) < 30 * k:
        return "too few exact builds"
    if a["functional_solver_agreements"] < 15 * k:
        return "too few comparisons with the functional solver"
    return None
