"""C19 - range spaces enumerate the integer box and the index function inverts them.

Monitor shape: reference model over the *complete* bounded box of inputs: every (mins, maxs)
with dimension 1..3 (quick) / 1..4 (thorough), mins in [-3,3], widths 0..3; for each box every
listed vector and every vector of the box inflated by 2 in each direction.
"""

import itertools

import numpy as np

LEVEL = "exploration"
TECHNIQUE = "reference-model oracle (itertools.product + arithmetic index) on the real create_range_space, exhaustive over a bounded box of bounds"
EXHAUSTIVE = True
COUNT_OBS_AS_EVALUATIONS = True
RULE = ("complete enumeration of integer boxes: dimension 1..3 (quick) or 1..4 (thorough), each lower "
        "bound in -3..3, each width 0..3; per box: listing == itertools.product in row-major order, "
        "index_fn(row i) == i for every row, and for every vector of the box inflated by 2 per side "
        "index_fn == row of the coordinate-wise nearest box point. evaluations = boxes; "
        "distinct_nontrivial = boxes with a non-zero lower bound or a zero-width dimension.")
ASSUMPTIONS = ["bounded box of bounds; nothing claimed outside it",
               "index_fn evaluated through jax.vmap (the way the solvers call it) and eagerly on samples"]
MIN_DECIDING = {"quick": 16, "thorough": 16}
SHARD_TIMEOUT = {"quick": 1800, "thorough": 7200}

MINS = list(range(-3, 4))
WIDTHS = [0, 1, 2, 3]
NSH = 32


SPECIAL = [([2_000_000_000], [2_000_000_003]), ([-2_000_000_003], [-2_000_000_000]), ([1_000_000, -5], [1_000_002, -3]),
           ([-40000, 30000, 7], [-39998, 30001, 7]), ([0, 0, 0, 0, 0], [1, 0, 2, 0, 1]), ([5], [5]), ([-1, -1, -1, -1, -1, -1], [0, 0, 0, 0, 0, 0]),
           # bounds on both sides of 2^7, 2^8, 2^15, 2^16 (where a narrower integer type would wrap)
           ([0], [200]), ([100], [140]), ([-200], [-120]), ([0, 120], [1, 135]), ([250], [260]), ([0], [40000]),
           ([32760], [32775]), ([-32775], [-32760]), ([65530], [65540]), ([126, -129], [129, -126])]


def gen_cases(seed, tier):
    dims = [1, 2, 3] if tier == "quick" else [1, 2, 3, 4]
    cases = [dict(dim=0, shard=0, nshards=1, devices=1)]      # boxes with large offsets / 5-6 dimensions
    # 64-bit mode NOT enabled in the worker (the state every problem built before its solver is constructed in):
    # the small 1-D boxes again, and every 1-D width up to 300 plus offsets / a second column (dim = -1)
    cases.append(dict(dim=1, shard=0, nshards=1, devices=1, no_x64=True))
    for sh in range(16):
        cases.append(dict(dim=-1, shard=sh, nshards=16, devices=1, no_x64=True))
    for d in dims:
        nsh = 1 if d == 1 else NSH
        for sh in range(nsh):
            cases.append(dict(dim=d, shard=sh, nshards=nsh, devices=1))
    return cases


def run_case(case):
    import jax
    import jax.numpy as jnp

    from vf import target  # noqa: F401
    from mdpax.utils.spaces import create_range_space

    d = case["dim"]
    per_dim = [(m, w) for m in MINS for w in WIDTHS]
    n_box = n_nontriv = n_vec = 0
    if d == -1:
        wide = [((0, w),) for w in range(1, 301)] + [((lo, w),) for lo in (1, -5) for w in range(38, 131)] \
            + [((0, w), (0, 1)) for w in range(38, 131, 3)]
        boxes = wide
    else:
        boxes = (itertools.product(per_dim, repeat=d) if d > 0 else
                 [tuple((lo, hi - lo) for lo, hi in zip(a, b)) for a, b in SPECIAL])
    for k, combo in enumerate(boxes):
        if k % case["nshards"] != case["shard"]:
            continue
        d = len(combo)
        mins = np.array([c[0] for c in combo], dtype=np.int64)
        maxs = mins + np.array([c[1] for c in combo], dtype=np.int64)
        where = f"create_range_space(mins={mins.tolist()}, maxs={maxs.tolist()})"
        try:
            # alternate the accepted input kinds: numpy, jax, plain lists
            if k % 3 == 0:
                space, index_fn = create_range_space(mins, maxs)
            elif k % 3 == 1:
                space, index_fn = create_range_space(jnp.array(mins, dtype=jnp.int32), jnp.array(maxs, dtype=jnp.int32))
            else:
                space, index_fn = create_range_space(mins.tolist(), maxs.tolist())
        except Exception as e:  # noqa: BLE001
            return dict(status="violation", kind="target-exception", detail=f"{where} raised {type(e).__name__}: {e}")
        ref = np.array(list(itertools.product(*[range(int(a), int(b) + 1) for a, b in zip(mins, maxs)])),
                       dtype=np.int64).reshape(-1, d)
        got = np.asarray(space)
        if got.shape != ref.shape or not np.array_equal(got, ref):
            return dict(status="violation", kind="listing",
                        detail=f"{where}: listing differs from row-major enumeration of the box "
                               f"(shape {got.shape} vs {ref.shape})")
        try:
            idx = np.asarray(jax.vmap(index_fn)(space))
        except Exception as e:  # noqa: BLE001
            return dict(status="violation", kind="target-exception", detail=f"{where} index_fn raised {type(e).__name__}: {e}")
        if not np.array_equal(idx, np.arange(len(ref))):
            i = int(np.argmax(idx != np.arange(len(ref))))
            return dict(status="violation", kind="index",
                        detail=f"{where}: index_fn({ref[i].tolist()}) = {int(idx[i])}, its row is {i}")
        # inflated box: nearest point in each coordinate
        infl = np.array(list(itertools.product(*[range(int(a) - 2, int(b) + 3) for a, b in zip(mins, maxs)])),
                        dtype=np.int64).reshape(-1, d)
        clipped = np.clip(infl, mins, maxs)
        dims = (maxs - mins + 1)
        exp = np.ravel_multi_index(tuple((clipped - mins).T), tuple(int(x) for x in dims))
        oi = np.asarray(jax.vmap(index_fn)(jnp.asarray(infl, dtype=jnp.int32)))
        if not np.array_equal(oi, exp):
            i = int(np.argmax(oi != exp))
            return dict(status="violation", kind="outside",
                        detail=f"{where}: index_fn({infl[i].tolist()}) = {int(oi[i])}, nearest box point "
                               f"{clipped[i].tolist()} is row {int(exp[i])}")
        if k % 10 == 0:
            # other call styles and input types: eager on a jax row, a Python list, numpy int64; under jit
            j = int(k // 10) % len(ref)
            o = int(k // 10) % len(infl)
            for label, fn, conv in (("eager/jax", index_fn, lambda v: jnp.asarray(v, dtype=jnp.int32)),
                                    ("eager/list", index_fn, lambda v: [int(x) for x in v]),
                                    ("eager/int64", index_fn, lambda v: np.asarray(v, dtype=np.int64)),
                                    ("jit", jax.jit(index_fn), lambda v: jnp.asarray(v, dtype=jnp.int32))):
                try:
                    a, b = int(fn(conv(ref[j]))), int(fn(conv(infl[o])))
                except Exception as e:  # noqa: BLE001
                    return dict(status="violation", kind="target-exception",
                                detail=f"{where}: index_fn [{label}] raised {type(e).__name__}: {str(e)[:150]}")
                if a != j or b != int(exp[o]):
                    return dict(status="violation", kind="index",
                                detail=f"{where}: index_fn [{label}]({ref[j].tolist()}) = {a} (row {j}); ({infl[o].tolist()}) = {b} (nearest row {int(exp[o])})")
        if k % 5 == 0 and np.abs(mins).max() < 10 ** 8 and np.abs(maxs).max() < 10 ** 8:
            # vectors FAR outside the box in one coordinate (up to +-2e9 away, still int32): nearest row in that coordinate
            far = []
            for j in range(d):
                for off in (10 ** 6, -10 ** 6, 10 ** 9 + 2, -(10 ** 9) - 2, 2 * 10 ** 9, -2 * 10 ** 9, 536870913, -1073741825):
                    v = ref[len(ref) // 2].copy()
                    v[j] = int(mins[j]) + off
                    if -2 ** 31 < v[j] < 2 ** 31 and abs(int(v[j]) - int(mins[j])) < 2 ** 31:
                        far.append(v)
            far = np.array(far, dtype=np.int64).reshape(-1, d)
            fexp = np.ravel_multi_index(tuple((np.clip(far, mins, maxs) - mins).T), tuple(int(x) for x in dims))
            try:
                fgot = np.asarray(jax.vmap(index_fn)(jnp.asarray(far, dtype=jnp.int32)))
            except Exception as e:  # noqa: BLE001
                return dict(status="violation", kind="target-exception", detail=f"{where}: index_fn on far-outside vectors raised {type(e).__name__}: {str(e)[:150]}")
            if not np.array_equal(fgot, fexp):
                i = int(np.argmax(fgot != fexp))
                return dict(status="violation", kind="outside",
                            detail=f"{where}: index_fn({far[i].tolist()}) = {int(fgot[i])}, nearest box point "
                                   f"{np.clip(far[i], mins, maxs).tolist()} is row {int(fexp[i])}")
            n_vec += len(far)
        if k % 5 == 0:
            # vectors held in narrower / unsigned integer dtypes (a state kept as int8, uint8, int16, uint16): every
            # vector of the inflated box that the dtype can represent, through vmap
            for dt in (np.int8, np.uint8, np.int16, np.uint16):
                lo_, hi_ = np.iinfo(dt).min, np.iinfo(dt).max
                fits = ((infl >= lo_) & (infl <= hi_)).all(axis=1)
                if not fits.any():
                    continue
                sub = infl[fits].astype(dt)
                try:
                    got_dt = np.asarray(jax.vmap(index_fn)(jnp.asarray(sub)))
                    one = int(index_fn(sub[0]))
                except Exception as e:  # noqa: BLE001
                    return dict(status="violation", kind="target-exception",
                                detail=f"{where}: index_fn on {np.dtype(dt).name} vectors raised {type(e).__name__}: {str(e)[:150]}")
                if not np.array_equal(got_dt, exp[fits]) or one != int(exp[fits][0]):
                    i = int(np.argmax(got_dt != exp[fits])) if not np.array_equal(got_dt, exp[fits]) else 0
                    return dict(status="violation", kind="index",
                                detail=f"{where}: index_fn({sub[i].tolist()} as {np.dtype(dt).name}) = {int(got_dt[i])}, nearest box point "
                                       f"{clipped[fits][i].tolist()} is row {int(exp[fits][i])}")
                n_vec += int(fits.sum())
        n_box += 1
        n_vec += len(infl) + len(ref)
        if (mins != 0).any() or (maxs == mins).any():
            n_nontriv += 1
    tag = f"dim{case['dim']}" if case["dim"] >= 0 else "wide"
    if case.get("no_x64"):
        import jax as _j

        if _j.config.jax_enable_x64:
            return dict(status="error", detail="harness: 64-bit mode is on in a no_x64 worker")
        tag += "-x64off"
    return dict(status="ok", n_obs=n_box, distinct=n_nontriv, vectors=n_vec, cls=[tag, case["shard"]])


def aggregate(records, cases):
    ok = [r for r in records if r["status"] == "ok"]
    per = {}
    for r in ok:
        per[r["cls"][0]] = per.get(r["cls"][0], 0) + r["n_obs"]
    return dict(boxes_per_dimension=per, vectors_indexed=sum(r.get("vectors", 0) for r in ok))


def coverage_check(records, cases, tier):
    dims = [1, 2, 3] if tier == "quick" else [1, 2, 3, 4]
    per = {}
    for r in records:
        if r["status"] == "ok":
            per[r["cls"][0]] = per.get(r["cls"][0], 0) + r["n_obs"]
    for d in dims:
        if per.get(f"dim{d}", 0) != 28 ** d:
            return f"dimension {d}: {per.get(f'dim{d}', 0)} of {28 ** d} boxes enumerated"
    if per.get("dim1-x64off", 0) != 28 or per.get("wide-x64off", 0) < 500:
        return f"boxes without 64-bit mode: {per.get('dim1-x64off', 0)} small, {per.get('wide-x64off', 0)} wide"
    return None
