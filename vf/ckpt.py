"""Worker-side helpers for the checkpoint properties (C09-C12)."""

import hashlib
import os

import numpy as np


def h(x):
    if x is None:
        return "none"
    a = np.ascontiguousarray(np.asarray(x))
    return f"{a.dtype}:{a.shape}:" + hashlib.sha256(a.tobytes()).hexdigest()[:20]


def state_sig(solver_name, st):
    """Hashes of every leaf that is runtime state for this solver (DESIGN C10 interpretation)."""
    d = dict(iteration=int(st.info.iteration), values=h(st.values))
    if solver_name == "pi":
        d["policy"] = h(st.policy)
    if hasattr(st.info, "gain"):
        d["gain"] = h(np.asarray(st.info.gain, dtype=np.float64))
    if hasattr(st.info, "value_history"):
        d["value_history"] = h(st.info.value_history)
        d["history_index"] = int(st.info.history_index)
        d["period"] = int(st.info.period)
    return d


def wrap_save(solver, solver_name, log):
    """Observe the public save() of this instance: snapshot what the solver holds at the call."""
    orig = solver.save

    def save(step):
        log.append(dict(step=int(step), **state_sig(solver_name, solver.solver_state)))
        return orig(step)

    solver.save = save
    return log


def listing(d):
    if not os.path.isdir(d):
        return None
    return sorted(int(x) for x in os.listdir(d) if x.isdigit())


def tmp_leftovers(d):
    if not os.path.isdir(d):
        return []
    return [x for x in os.listdir(d) if "tmp" in x]


def wait(solver):
    m = getattr(solver, "checkpoint_manager", None)
    if m is not None:
        m.wait_until_finished()


def dir_digest(d):
    out = {}
    for root, _, files in os.walk(d):
        for f in files:
            p = os.path.join(root, f)
            with open(p, "rb") as fh:
                out[os.path.relpath(p, d)] = hashlib.sha256(fh.read()).hexdigest()[:16]
    return out


SOLVER_KW = {
    "vi": dict(gamma=0.9, convergence_test="max_diff"),
    "pi": dict(gamma=0.9, max_eval_iter=3),
    "rvi": dict(),
    "per": dict(gamma=0.95, period=3, clear_value_history_on_convergence=False),
    "sa": dict(gamma=0.9, max_batch_size=5, shuffle_states=False),
}


def variant_kw(sv, rng, idx=None):
    """Solver-specific options per case (every option that adds or changes runtime state).  With
    ``idx`` the state-affecting options cycle deterministically so that a small tier covers each."""
    if idx is not None:
        if sv == "pi":
            return dict(max_eval_iter=[3, 20, 2][idx % 3], reset_values_for_each_policy_eval=bool((idx + 1) % 2),
                        convergence_test=["span", "max_diff"][(idx // 2) % 2])
        if sv == "per":
            return dict(period=[3, 2, 5][idx % 3], gamma=[0.95, 1.0, 0.9][idx % 3])
        if sv == "vi":
            return dict(convergence_test=["max_diff", "span"][idx % 2], max_batch_size=[5, 1024, 64][idx % 3])
    if sv == "vi":
        return dict(convergence_test=str(rng.choice(["span", "max_diff"])), max_batch_size=int(rng.choice([5, 64, 1024])))
    if sv == "pi":
        return dict(max_eval_iter=int(rng.choice([2, 3, 20])), reset_values_for_each_policy_eval=bool(rng.integers(0, 2)),
                    convergence_test=str(rng.choice(["span", "max_diff"])))
    if sv == "rvi":
        return dict(max_batch_size=int(rng.choice([7, 64, 1024])))
    if sv == "per":
        return dict(period=int(rng.choice([2, 3, 5])), gamma=float(rng.choice([0.95, 0.9, 1.0])))
    return dict(max_batch_size=int(rng.choice([3, 5, 64])), convergence_test=str(rng.choice(["span", "max_diff"])))
