"""Parameterisations of the shipped problems for C13-C16 (pure python, JSON-able).

Every draw passes the problem's own configuration validation; sizes are capped so that the
complete state x action x event table fits the per-case budget.
"""

import math

import numpy as np


def _r(rng, lo, hi, nd=3):
    return round(float(rng.uniform(lo, hi)), nd)


def _logu(rng, lo, hi, nd=3):
    return round(float(10.0 ** rng.uniform(math.log10(lo), math.log10(hi))), nd)


def sizes(name, p):
    if name == "forest":
        return p["S"], 2, 2
    if name == "de_moor":
        q = p["max_order_quantity"] + 1
        return q ** (p["max_useful_life"] + p["lead_time"] - 1), q, p["max_demand"] + 1
    if name == "hendrix":
        m, qa, qb = p["max_useful_life"], p["max_order_quantity_a"], p["max_order_quantity_b"]
        return ((qa + 1) * (qb + 1)) ** m, (qa + 1) * (qb + 1), (m * qa + 1) * (m * qb + 1)
    if name == "mirjalili":
        m, Q, D = p["max_useful_life"], p["max_order_quantity"], p["max_demand"]
        return 7 * (Q + 1) ** (m - 1), Q + 1, (D + 1) * math.comb(Q + m, m)
    raise ValueError(name)


def draw(rng, name, cap):
    for _ in range(200):
        if name == "forest":
            p = dict(S=int(rng.choice([1, 2, 3, 5, 10, 40])), r1=_r(rng, -5, 10), r2=_r(rng, -5, 10),
                     p=float(rng.choice([0.0, 1e-6, 0.1, 0.5, 1.0])))
        elif name == "de_moor":
            p = dict(max_useful_life=int(rng.integers(1, 6)), lead_time=int(rng.integers(1, 5)),
                     max_order_quantity=int(rng.integers(1, 5)), max_demand=int(rng.integers(1, 13)),
                     demand_gamma_mean=_logu(rng, 0.3, 12), demand_gamma_cov=_logu(rng, 0.15, 2.5),
                     variable_order_cost=_r(rng, 0, 6), shortage_cost=_r(rng, 0, 9), wastage_cost=_r(rng, 0, 9),
                     holding_cost=_r(rng, 0, 3), issue_policy=str(rng.choice(["fifo", "lifo"])))
        elif name == "hendrix":
            p = dict(max_useful_life=int(rng.integers(1, 6)), max_order_quantity_a=int(rng.integers(1, 5)),
                     max_order_quantity_b=int(rng.integers(1, 5)), demand_poisson_mean_a=_logu(rng, 0.5, 30),
                     demand_poisson_mean_b=_logu(rng, 0.5, 30),
                     substitution_probability=float(rng.choice([0.0, 0.3, 0.5, 1.0])),
                     variable_order_cost_a=_r(rng, 0, 2), variable_order_cost_b=_r(rng, 0, 2),
                     sales_price_a=_r(rng, 0.5, 3), sales_price_b=_r(rng, 0.5, 3))
        else:
            m = int(rng.integers(1, 6))
            p = dict(max_useful_life=m, max_order_quantity=int(rng.integers(1, 5)), max_demand=int(rng.integers(1, 11)),
                     weekday_demand_negbin_n=[_logu(rng, 0.5, 50) for _ in range(7)],
                     weekday_demand_negbin_delta=[_logu(rng, 0.5, 50) for _ in range(7)],
                     useful_life_at_arrival_distribution_c_0=[_r(rng, -3, 3) for _ in range(m - 1)],
                     useful_life_at_arrival_distribution_c_1=[_r(rng, -1, 1) for _ in range(m - 1)],
                     variable_order_cost=_r(rng, 0, 3), fixed_order_cost=_r(rng, 0, 12), shortage_cost=_r(rng, 0, 25),
                     wastage_cost=_r(rng, 0, 8), holding_cost=_r(rng, 0, 3))
            if m > 1 and rng.random() < 0.12:
                # extreme (still valid) logit coefficients: the split is numerically a point mass
                p["useful_life_at_arrival_distribution_c_0"] = [float(rng.choice([-800.0, -50.0, 50.0, 800.0])) for _ in range(m - 1)]
                p["useful_life_at_arrival_distribution_c_1"] = [float(rng.choice([-300.0, -30.0, 0.0, 30.0, 300.0])) for _ in range(m - 1)]
        S, A, E = sizes(name, p)
        if S * A * E <= cap and S <= 6000:
            return p
    raise RuntimeError("could not draw a small enough parameterisation")


FIXED = [
    ("forest", dict(S=3, r1=4.0, r2=2.0, p=0.1)),
    ("de_moor", dict(max_useful_life=2, lead_time=1, max_order_quantity=4, max_demand=10)),
    ("de_moor", dict(max_useful_life=1, lead_time=3, max_order_quantity=2, max_demand=6, issue_policy="fifo")),
    ("hendrix", dict(max_useful_life=2, max_order_quantity_a=3, max_order_quantity_b=3)),
    ("hendrix", dict(max_useful_life=1, max_order_quantity_a=10, max_order_quantity_b=10)),
    ("mirjalili", dict(max_useful_life=3, max_order_quantity=3, max_demand=5)),
    # demand whose whole gamma mass lies above max_demand (every CDF difference is 0 in float32; all mass is lumped on max_demand)
    ("de_moor", dict(max_useful_life=1, lead_time=1, max_order_quantity=2, max_demand=5, demand_gamma_mean=1000.0, demand_gamma_cov=0.1)),
    ("de_moor", dict(max_useful_life=2, lead_time=1, max_order_quantity=2, max_demand=1, demand_gamma_mean=50.0, demand_gamma_cov=0.1)),
    # ... and far below 1 (all mass on demand 0)
    ("de_moor", dict(max_useful_life=1, lead_time=1, max_order_quantity=2, max_demand=4, demand_gamma_mean=0.001, demand_gamma_cov=0.2)),
    # order quantities beyond 127 (a space stored in a narrower integer type would wrap)
    ("de_moor", dict(max_useful_life=1, lead_time=1, max_order_quantity=140, max_demand=3)),
    ("mirjalili", dict(max_useful_life=1, max_order_quantity=130, max_demand=2,
                       useful_life_at_arrival_distribution_c_0=[], useful_life_at_arrival_distribution_c_1=[])),
    ("mirjalili", dict(max_useful_life=1, max_order_quantity=4, max_demand=6,
                       useful_life_at_arrival_distribution_c_0=[], useful_life_at_arrival_distribution_c_1=[])),
]


STRUCTURAL = {
    "forest": ["S"],
    "de_moor": ["max_useful_life", "lead_time", "max_order_quantity", "max_demand", "issue_policy"],
    "hendrix": ["max_useful_life", "max_order_quantity_a", "max_order_quantity_b"],
    "mirjalili": ["max_useful_life", "max_order_quantity", "max_demand"],
}


def sibling(rng, name, p, cap):
    """Same structure (spaces, shapes), freshly drawn cost / distribution parameters."""
    q = draw(rng, name, 10 ** 9)
    for k in STRUCTURAL[name]:
        if k in p:
            q[k] = p[k]
        else:
            q.pop(k, None)
    if name == "mirjalili":
        m = p["max_useful_life"]
        q["useful_life_at_arrival_distribution_c_0"] = [_r(rng, -3, 3) for _ in range(m - 1)]
        q["useful_life_at_arrival_distribution_c_1"] = [_r(rng, -1, 1) for _ in range(m - 1)]
    return q


def one_parameter_sibling(rng, name, p, which):
    """p with exactly ONE non-structural parameter redrawn (a price / cost / probability sweep in one process);
    ``which`` cycles through the parameters so that every one of them is the swept one in some case."""
    keys = [k for k in draw(rng, name, 10 ** 9) if k not in STRUCTURAL[name]]
    k = keys[which % len(keys)]
    q = dict(p)
    for _ in range(50):
        v = sibling(rng, name, p, 10 ** 9)[k]
        if v != p.get(k):
            q[k] = v
            break
    return q


def cases(seed, tier, salt):
    rng = np.random.default_rng([seed, 1316])     # same parameterisations for C13-C16 of one seed
    n = 24 if tier == "quick" else 110
    cap = 250_000 if tier == "quick" else 1_000_000
    out = [dict(name=nm, params=p, devices=1) for nm, p in FIXED]
    for i in range(n):
        for nm in ("forest", "de_moor", "hendrix", "mirjalili"):
            if nm == "forest" and i % 3:
                continue
            p = draw(rng, nm, cap)
            c = dict(name=nm, params=p, devices=1)
            if i % 3 == 0:
                full = dict(p)
                c["siblings"] = ([sibling(rng, nm, full, cap)]
                                 + [one_parameter_sibling(rng, nm, full, i // 3 + seed + j) for j in range(int(rng.integers(1, 3)))])
            out.append(c)
    return out
