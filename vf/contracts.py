"""Runtime contracts applied to the real mdpax classes from the harness side (DESIGN 4.4).

icontract decorators mutate the class in place, so references bound before decoration
(``from ... import BatchProcessor`` inside mdpax) go through the contract too.  Every
condition counts its evaluations; a check relying on a contract treats zero evaluations as
inconclusive.
"""

import numbers

import icontract

COUNTS = {}


class ContractBroken(AssertionError):
    pass


def _count(name):
    COUNTS[name] = COUNTS.get(name, 0) + 1


def batch_invariant(self):
    _count("BatchProcessor.invariant")
    if not hasattr(self, "n_pad"):
        return True
    bs, nb, nd, n, pad = self.batch_size, self.n_batches, self.n_devices, self.n_states, self.n_pad
    return (isinstance(bs, numbers.Integral) and isinstance(nb, numbers.Integral) and bs >= 1 and nb >= 1 and nd >= 1
            and pad >= 0 and nd * nb * bs == n + pad and tuple(self.batch_shape) == (nd, nb, bs))


def unbatch_post(self, batched_results, result):
    _count("BatchProcessor.unbatch_results.post")
    return (result.shape[0] == self.n_states
            and tuple(result.shape[1:]) == tuple(batched_results.shape[3:]))


_applied = False


def apply():
    global _applied
    if _applied:
        return
    from mdpax.utils.batch_processing import BatchProcessor

    icontract.invariant(batch_invariant, error=lambda self: ContractBroken(
        f"BatchProcessor invariant broken: n_states={self.n_states} devices={self.n_devices} "
        f"n_batches={self.n_batches} batch_size={self.batch_size} n_pad={self.n_pad}"))(BatchProcessor)
    BatchProcessor.unbatch_results = icontract.ensure(
        unbatch_post, error=lambda self, batched_results, result: ContractBroken(
            f"unbatch_results returned shape {tuple(result.shape)} for n_states={self.n_states}, "
            f"input shape {tuple(batched_results.shape)}"))(BatchProcessor.unbatch_results)
    _applied = True
