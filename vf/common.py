"""Worker-side helpers shared by the property modules."""

import math

import numpy as np

from vf import gen, refmdp, shipped


def build_problem(case):
    """-> (problem, nxt, rew, prob, scale, structure label, interface label, tables dict)"""
    from vf import tabular, target

    if case.get("kind", "gen") == "gen":
        spec = case["spec"]
        t = gen.build(spec)
        problem = target.call("construct problem", tabular.make, spec, t)
        return (problem, t["nxt"], t["rew"], t["prob"], float(spec["scale"]),
                spec["structure"], list(gen.interface_class(spec, t)), t)
    problem = target.call("construct shipped problem", shipped.make, case["name"], case["params"])
    tb = target.problem_tables(problem)
    scale = float(max(1.0, np.abs(tb["rew"]).max()))
    return (problem, tb["nxt"], tb["rew"], tb["prob"], scale, "shipped:" + case["name"],
            ["shipped"], tb)


def partition_class(solver):
    shape = tuple(int(x) for x in solver.batch_processor.batch_shape)
    n_pad = int(solver.n_pad)
    return shape, n_pad, [f"d{shape[0]}", "b1" if shape[1] == 1 else "b>1", "pad" if n_pad else "nopad"]


def batch_choices(rng, S):
    return int(rng.choice([1, 2, 3, 5, 7, max(S - 1, 1), S, S + 1, S + 3, 64, 1024]))


def threshold(eps, g):
    return eps if g == 1.0 else eps * (1.0 - g) / g


def sweeps_needed(g, thr, D):
    """Upper bound on sweeps until a gamma-contraction's successive difference drops below thr."""
    if D <= thr:
        return 1
    if g <= 0.0:
        return 2
    return int(math.ceil(math.log(thr / D) / math.log(g))) + 2


def draw_gamma_eps(rng, scale, init_mag, max_sweeps=12000):
    """gamma and epsilon such that plain VI provably stops within max_sweeps."""
    for _ in range(50):
        g = float(rng.choice([0.05, 0.3, 0.6, 0.9, 0.97, 0.995])) if rng.random() < 0.8 else float(rng.uniform(0.02, 0.999))
        rel = float(10.0 ** rng.uniform(-8, 3))
        eps = rel * scale
        D = 2.0 * (scale * 6.0 / (1.0 - g) + init_mag)
        if sweeps_needed(g, threshold(eps, g), D) <= max_sweeps:
            return g, eps, rel
    return 0.9, scale * 1e-3, 1e-3


def near(x, thr, band=1e-7):
    return abs(x - thr) <= band * max(abs(thr), 1e-300)


__all__ = ["build_problem", "partition_class", "batch_choices", "threshold", "sweeps_needed",
           "draw_gamma_eps", "near", "refmdp", "gen"]


def sibling_case(case, **override):
    """A second generated problem of the SAME shapes (states, actions, events, vector dimensions, hence the same
    batch layout and the same problem name) but other contents: other tables and a shifted / re-factored state
    box.  Built and solved after the main case in the same process, it exposes state shared between instances."""
    import copy

    c = copy.deepcopy(case)
    spec = c["spec"]
    spec["gseed"] = int(spec["gseed"]) + 2            # same parity: same problem class
    spec["origin"] = {0: 2, 1: 0, 2: -1, -1: 1}.get(int(spec.get("origin", 0)), 0)
    c.update(override)
    c["sibling"] = True
    return c
