"""Reference trajectories of the value-iteration family (numpy, independent of mdpax).

``Trajectory`` produces V_n = (sweep)^n v0 and the documented convergence measure at each
sweep, for: plain value iteration (span / max_diff), relative value iteration (span; values
are compared modulo a constant), periodic value iteration (period span, discounted or not)
and semi-asynchronous value iteration in fixed order (block Gauss-Seidel with the partition
the solver reports).
"""

import numpy as np

from vf import refmdp


class Trajectory:
    def __init__(self, kind, P, R, g, v0, *, test="span", period=None, partition=None):
        self.kind, self.P, self.R, self.g = kind, P, R, float(g)
        self.test, self.period, self.partition = test, period, partition
        self.S = R.shape[0]
        self.iter = [np.array(v0, dtype=float)]
        self.meas = [None]

    def _sweep(self, v, order=None):
        if self.kind == "sa":
            o = np.arange(self.S) if order is None else order
            return refmdp.gs_sweep(self.P, self.R, self.g, v, o, self.partition, self.S)
        return refmdp.bellman(self.P, self.R, self.g, v)

    def step(self, order=None):
        v = self.iter[-1]
        new = self._sweep(v, order)
        self.iter.append(new)
        n = len(self.iter) - 1
        d = new - v
        if self.kind == "per":
            m = float("inf") if n < self.period else refmdp.periodic_measure(self.iter, n, self.period, self.g)
        elif self.kind == "rvi" or self.test == "span":
            m = float(d.max() - d.min())
        else:
            m = float(np.abs(d).max())
        self.meas.append(m)
        return new, m

    @property
    def n(self):
        return len(self.iter) - 1

    def noise(self, n):
        """Absolute fp noise level of the measure at sweep n (for the near-threshold band)."""
        vmag = max(float(np.abs(self.iter[n]).max()), float(np.abs(self.iter[n - 1]).max()), 1e-300)
        base = 64 * np.finfo(float).eps * vmag * max(self.S, 8)
        if self.kind == "per" and self.g < 1.0 and n >= self.period:
            return base * self.period / (self.g ** (n - 1))
        return base


def near_threshold(m, thr, noise, band=1e-7):
    if not np.isfinite(m):
        return False
    return abs(m - thr) <= band * abs(thr) + noise
