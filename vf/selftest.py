"""Reference self-checks run by MANIFEST.setup_cmd (DESIGN section 8 item 4).

Validates the trusted base (vf.refmdp) against itself and against pymdptoolbox, without
touching mdpax.  Exit 0 on success.
"""

import sys

import numpy as np

from vf import gen, refmdp


def main():
    rng = np.random.default_rng(12345)
    worst = 0.0
    for i in range(30):
        spec = gen.random_spec(rng, smin=2, smax=25)
        t = gen.build(spec)
        P, R = refmdp.tables(t["nxt"], t["rew"], t["prob"])
        assert np.abs(P.sum(-1) - 1).max() < 1e-12
        g = float(rng.choice([0.3, 0.9, 0.99]))
        v, pi, res = refmdp.vstar(P, R, g)
        scale = 1 + np.abs(v).max()
        assert res <= 1e-9 * scale, ("bellman residual of v*", res, scale)
        assert np.abs(refmdp.evalpi(P, R, pi, g) - v).max() <= 1e-9 * scale
        worst = max(worst, res / scale)
    try:
        import mdptoolbox.mdp as M

        for i in range(5):
            spec = gen.random_spec(rng, smin=3, smax=12)
            t = gen.build(spec)
            P, R = refmdp.tables(t["nxt"], t["rew"], t["prob"])
            vi = M.PolicyIteration(np.transpose(P, (1, 0, 2)), R, 0.9)
            vi.run()
            v, _, _ = refmdp.vstar(P, R, 0.9)
            assert np.abs(np.array(vi.V) - v).max() <= 1e-6 * (1 + np.abs(v).max()), "vs pymdptoolbox"
    except ImportError:
        pass
    n_lp = 0
    for i in range(12):
        spec = gen.random_spec(rng, smin=3, smax=15, avg="unichain")
        t = gen.build(spec)
        P, R = refmdp.tables(t["nxt"], t["rew"], t["prob"])
        g1, h, pi = refmdp.avg_pi(P, R)
        g2 = refmdp.lp_gain(P, R)
        assert g2 is not None and abs(g1 - g2) <= 1e-7 * (1 + abs(g1)), ("LP vs PI gain", g1, g2)
        n_lp += 1
    print(f"vf.selftest ok: vstar residual worst {worst:.2e}; LP==PI gain on {n_lp} chains")
    return 0


if __name__ == "__main__":
    sys.exit(main())
