#!/venv/bin/python
"""Regenerate /verif/MANIFEST.json from the property modules that exist under vf/props.

A property with a module is claimed; every other property of properties.jsonl is listed
under not_applicable with the reason given in NOT_CLAIMED (or 'not built yet').
"""
import importlib
import json
import subprocess
import sys
from pathlib import Path

ROOT = Path(__file__).resolve().parent.parent
sys.path.insert(0, str(ROOT))

NOT_CLAIMED = {}

BASELINE_CMD = ("cd /repo && env -u MDPAX_VERIF /venv/bin/python -m pytest -ra -q -p no:cacheprovider "
                "--timeout=900 --continue-on-collection-errors --junitxml=/tmp/mdpax_baseline_off.xml")


LEVEL_WHY = {
    "exploration": ("Assurance: the property held on every execution of this run - a generated, seeded workload of hostile "
                    "inputs / configurations / histories driven through the real code and judged by an independent oracle; "
                    "the evidence file says how many executions reached the deciding oracle, which classes they covered and "
                    "the worst margins observed. It is not a for-all: the quantifier ranges over an unbounded space, so "
                    "sampling structured classes (and, where a finite box exists, enumerating it completely) is the honest level."),
    "fault_enumeration": ("Assurance: every enumerated fault point (interruption iteration / file-system event of the run) was "
                          "injected into the real code in fresh processes and the outcome judged by an offline checker over the "
                          "recorded history; complete for the enumerated workload in the thorough tier, a stratified sample in "
                          "the quick tier. Faults inside native (non-audited) writes are sampled by wall-clock kills, not enumerated."),
}


def level_text(mod):
    doc = " ".join(x.strip() for x in mod.__doc__.strip().splitlines())
    return doc + " " + LEVEL_WHY.get(getattr(mod, "LEVEL", "exploration"), "")


def hook_commits():
    out = subprocess.run(["git", "-C", "/repo", "log", "--format=%H %s"], capture_output=True, text=True).stdout
    return [l.split()[0] for l in out.splitlines() if "verif hook" in l]


def main():
    props = [json.loads(l) for l in (ROOT / "properties.jsonl").read_text().splitlines() if l.strip()]
    checks, na = [], []
    for p in props:
        pid = p["id"]
        f = ROOT / "vf" / "props" / f"{pid.lower()}.py"
        if not f.exists():
            na.append({"property_id": pid, "reason": NOT_CLAIMED.get(pid, "check not built yet in this round; see DESIGN.md section 5 for the planned monitor")})
            continue
        mod = importlib.import_module(f"vf.props.{pid.lower()}")
        checks.append({
            "property_id": pid,
            "quick_cmd": f"./check {pid} --tier quick",
            "thorough_cmd": f"./check {pid} --tier thorough",
            "evidence_file": f"/verif/evidence/{pid}.json",
            "replay_cmd_template": f"./check {pid} --replay {{path}}",
            "engine": "vf",
            "level_claimed": {
                "category": getattr(mod, "LEVEL", "exploration"),
                "text": getattr(mod, "LEVEL_TEXT", level_text(mod)),
                "design_ref": f"DESIGN.md section 5, {pid}",
            },
            "level_note": "; ".join(getattr(mod, "ASSUMPTIONS", [])),
            "technique": getattr(mod, "TECHNIQUE", "runtime monitoring: reference-model oracle over generated workloads"),
        })
    man = {
        "version": 1,
        "setup_cmd": "/venv/bin/python -m pip install --quiet --no-index --find-links /opt/veriftools/wheels --target /verif/.deps icontract deal && /venv/bin/python -m vf.selftest",
        "hooks": {
            "guard": "MDPAX_VERIF",
            "enable": "environment variable MDPAX_VERIF=1 set by ./check for every worker process; mdpax is installed editable from /repo/src so workers import the current working tree (no build step)",
            "baseline_off_cmd": BASELINE_CMD,
            "source_commits": hook_commits(),
            "add_only": True,
        },
        "engines": [{
            "name": "vf",
            "path": "/verif/vf",
            "serves_properties": [c["property_id"] for c in checks],
            "kind_free_text": "runtime monitoring harness: generated hostile workloads driven through the real mdpax in fresh worker processes; independent numpy/pure-Python reference models, icontract contracts, an audit-hook crash/delay injector and one guarded source hook act as oracles",
        }],
        "checks": checks,
        "not_applicable": na,
        "notes": "All checks honour VERIF_SEED and VERIF_TIER; exit 0 held / 1 VIOLATION / 2 INCONCLUSIVE. Known findings are listed in /verif/known_findings.txt.",
    }
    (ROOT / "MANIFEST.json").write_text(json.dumps(man, indent=1) + "\n")
    print(f"claimed {len(checks)}, not claimed {len(na)}")


if __name__ == "__main__":
    main()
