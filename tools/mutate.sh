#!/bin/sh
# usage: tools/mutate.sh <patch.diff> <ID> [<ID> ...]
# Applies a patch (paths relative to the repo root, -p1) to a scratch copy of /repo/src and runs the
# given quick checks against it via MDPAX_SRC; never touches /repo or committed evidence.
set -u
patch_file=$(realpath "$1"); shift
scratch=$(mktemp -d /tmp/vf_mut_XXXXXX)
mkdir -p "$scratch/repo" && cp -r /repo/src "$scratch/repo/src"
( cd "$scratch/repo" && patch -p1 --quiet < "$patch_file" ) || { echo "PATCH FAILED"; rm -rf "$scratch"; exit 3; }
cd "$(dirname "$0")/.." || exit 2
for id in "$@"; do
  out=$(MDPAX_SRC="$scratch/repo/src" VERIF_EVIDENCE_DIR="$scratch/ev" VERIF_REPLAY_DIR="$scratch/rp" \
        ./check "$id" --tier "${MUT_TIER:-quick}" 2>&1)
  rc=$?
  echo "== $(basename "$patch_file") $id rc=$rc"
  echo "$out" | grep -E "VIOLATION|what:|INCONCLUSIVE|^\[$id\]" | head -6
done
rm -rf "$scratch"
