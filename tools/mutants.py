#!/venv/bin/python
"""Self-mutation suite (DESIGN section 8 item 2/3).

Each mutant is (id, file under src/mdpax, old text, new text, checks expected to catch it).
Negative controls (ids starting with 'n') are property-preserving refactors: every listed check
must stay green.  Usage:

    tools/mutants.py list
    tools/mutants.py run [id ...]          # default: all; results appended to tools/mutants_results.jsonl
    tools/mutants.py diff <id>             # print the patch

Runs against a scratch copy of /repo/src through MDPAX_SRC; /repo and committed evidence are
never touched.
"""
import json
import os
import shutil
import subprocess
import sys
import tempfile
import time
from pathlib import Path

ROOT = Path(__file__).resolve().parent.parent
VI = "solvers/value_iteration.py"
PI = "solvers/policy_iteration.py"
RVI = "solvers/relative_value_iteration.py"
PER = "solvers/periodic_value_iteration.py"
SA = "solvers/semi_async_value_iteration.py"
CK = "utils/checkpointing.py"
BP = "utils/batch_processing.py"
SP = "utils/spaces.py"
LG = "utils/logging.py"
CORE = "core/solver.py"
PROB = "core/problem.py"
DM = "problems/perishable_inventory/de_moor_single_product.py"
HX = "problems/perishable_inventory/hendrix_two_product.py"
MJ = "problems/perishable_inventory/mirjalili_platelet.py"
FO = "problems/forest.py"

M = [
    # ---------------- kernel / bounds
    ("m01", VI, "lambda eps, gamma: eps * (1 - gamma) / gamma if gamma != 1 else eps,\n            ),\n            \"max_diff\"",
     "lambda eps, gamma: eps,\n            ),\n            \"max_diff\"", ["C08", "C01"]),
    ("m02", VI, "        return jnp.max(\n            jax.vmap(\n                self._calculate_updated_state_action_value,",
     "        return jnp.min(\n            jax.vmap(\n                self._calculate_updated_state_action_value,", ["C02", "C01"]),
    ("m04", VI, "return jnp.take(self.problem.action_space, policy_idxs, axis=0)",
     "return jnp.take(self.problem.action_space, policy_idxs + 1, axis=0, mode=\"clip\")", ["C02", "C01"]),
    ("m05", VI, "        return (single_step_rewards + gamma * next_state_values).dot(probs)\n\n    def _calculate_updated_value(",
     "        return jnp.sum((single_step_rewards + gamma * next_state_values) * probs)\n\n    def _calculate_updated_value(", ["C02"]),
    ("m06", VI, "        return (single_step_rewards + gamma * next_state_values).dot(probs)\n\n    def _calculate_updated_value(",
     "        return (gamma * (single_step_rewards + next_state_values)).dot(probs)\n\n    def _calculate_updated_value(", ["C02", "C01"]),
    ("m07", CORE, "        initial_values = self._unbatch_results(padded_batched_initial_values)\n",
     "        initial_values = jnp.zeros_like(self._unbatch_results(padded_batched_initial_values))\n", ["C08", "C07"]),
    # ---------------- batching
    ("m08", BP, "            return results[: -self.n_pad]", "            return results[self.n_pad :]", ["C18", "C03", "C02"]),
    ("m56", BP, "states_per_device = (n_states + self.n_devices - 1) // self.n_devices",
     "states_per_device = max(n_states // self.n_devices, 1)", ["C18"]),
    # ---------------- relative VI
    ("m12", RVI, "        new_values = new_values - self.gain\n\n        span = self._get_span(new_values, self.values)\n\n        self.gain = new_values[-1]",
     "        gain_new = new_values[-1]\n        new_values = new_values - self.gain\n\n        span = self._get_span(new_values, self.values)\n\n        self.gain = gain_new", ["C04"]),
    ("m13", RVI, "        new_values = new_values - self.gain\n", "        new_values = new_values + self.gain\n", ["C04"]),
    # ---------------- policy iteration
    ("m15", PI, "n_changed = jnp.any(new_policy != self.policy, axis=1).sum()", "n_changed = (new_policy[:, 0] != self.policy[:, 0]).sum()", ["C05"]),
    ("m16", PI, "            if n_changed == 0:\n", "            if n_changed <= 1:\n", ["C05"]),
    ("m17", PI, "            if conv < self.conv_threshold:\n                break\n\n            values = new_values\n",
     "            values = new_values\n            if conv < self.conv_threshold:\n                break\n", ["C05"]),
    ("m18", PI, "            initial_policy = jax.vmap(self.problem.initial_policy)(\n                self.problem.state_space\n            )\n",
     "            raise NotImplementedError\n", ["C05"]),
    ("m19", PI, "        batch_actions = policy[batch_indices]  # Already contains action vectors",
     "        batch_actions = policy[jnp.arange(state_batch.shape[0])]  # Already contains action vectors", ["C05", "C03"]),
    # ---------------- semi-async
    ("m20", SA, "            return (actions, random_events, gamma, updated_values), new_batch_values",
     "            return (actions, random_events, gamma, current_values), new_batch_values", ["C06"]),
    ("m21", SA, "        return values[jnp.argsort(shuffled_state_idxs)]", "        return values[shuffled_state_idxs]", ["C06"]),
    ("m22", SA, "            self.key, subkey = random.split(self.key)\n", "            _, subkey = random.split(self.key)\n", ["C06"]),
    # ---------------- periodic
    ("m24", PER, "        prev_index = (history_index + 1) % (period + 1)\n        values_prev", "        prev_index = (history_index + 1) % period\n        values_prev", ["C07"]),
    ("m25", PER, "                gamma ** (iteration - p - 1)\n", "                gamma ** (iteration - p)\n", ["C07"]),
    ("m26", PER, "        if iteration < period:\n            return float(\"inf\")", "        if iteration <= period:\n            return float(\"inf\")", ["C07"]),
    # ---------------- stopping / accounting
    ("m28", VI, "        for _ in range(max_iterations):\n            self.iteration += 1\n            new_values, conv = self._iteration_step()\n            self.values = new_values\n\n            logger.info(\n                f\"Iteration {self.iteration}: {self._convergence_desc}",
     "        for _ in range(max_iterations):\n            new_values, conv = self._iteration_step()\n            self.values = new_values\n            if conv >= self.conv_threshold:\n                self.iteration += 1\n\n            logger.info(\n                f\"Iteration {self.iteration}: {self._convergence_desc}", ["C08"]),
    ("m31", VI, "        for _ in range(max_iterations):\n            self.iteration += 1\n            new_values, conv = self._iteration_step()\n            self.values = new_values\n\n            logger.info(\n                f\"Iteration {self.iteration}: {self._convergence_desc}",
     "        self.values = self._initialize_values(self.batched_states) if self.iteration == 0 else self.values\n        start = self.iteration\n        for _ in range(max_iterations + (1 if start else 0)):\n            self.iteration += 1\n            new_values, conv = self._iteration_step()\n            self.values = new_values\n\n            logger.info(\n                f\"Iteration {self.iteration}: {self._convergence_desc}", ["C08"]),
    # ---------------- restore
    ("m32", RVI, "        self.iteration = solver_state.info.iteration\n        self.gain = solver_state.info.gain\n", "        self.iteration = solver_state.info.iteration\n", ["C10", "C09"]),
    ("m33", PER, "        self.history_index = solver_state.info.history_index\n", "", ["C10", "C09"]),
    ("m34", VI, "        self.policy = solver_state.policy\n        self.iteration = solver_state.info.iteration\n",
     "        self.policy = solver_state.policy\n        self.iteration = solver_state.info.iteration + 1\n", ["C10", "C09", "C11"]),
    # ---------------- crash consistency / cadence
    ("m36", VI, "            new_values, conv = self._iteration_step()\n            self.values = new_values\n\n            logger.info(\n                f\"Iteration {self.iteration}: {self._convergence_desc}: {conv:{self.convergence_format}}\"\n            )\n\n            if conv < self.conv_threshold:\n                logger.info(\n                    f\"Convergence threshold reached at iteration {self.iteration}\"\n                )\n                break\n\n            if (\n                self.is_checkpointing_enabled\n                and self.iteration % self.checkpoint_frequency == 0\n            ):\n                self.save(self.iteration)\n",
     "            new_values, conv = self._iteration_step()\n            if (\n                self.is_checkpointing_enabled\n                and self.iteration % self.checkpoint_frequency == 0\n                and conv >= self.conv_threshold\n            ):\n                self.save(self.iteration)\n            self.values = new_values\n\n            if conv < self.conv_threshold:\n                break\n", ["C11", "C12", "C10"]),
    ("m37", VI, "                and self.iteration % self.checkpoint_frequency == 0\n            ):\n                self.save(self.iteration)\n\n        if conv >= self.conv_threshold:",
     "                and self.iteration % self.checkpoint_frequency == 0\n            ):\n                self.save(self.iteration + 1)\n\n        if conv >= self.conv_threshold:", ["C12", "C11", "C10"]),
    ("m39", VI, "        # Final checkpoint if enabled\n        if self.is_checkpointing_enabled:\n            self.save(self.iteration)\n\n        # Extract policy if converged or on final iteration\n        logger.info(\"Extracting policy\")\n        self.policy = self._extract_policy()\n        logger.info(\"Policy extracted\")\n\n        logger.success(\"Value iteration completed\")",
     "        # Extract policy if converged or on final iteration\n        logger.info(\"Extracting policy\")\n        self.policy = self._extract_policy()\n        logger.info(\"Policy extracted\")\n\n        logger.success(\"Value iteration completed\")", ["C12", "C09"]),
    ("m40", VI, "                and self.iteration % self.checkpoint_frequency == 0\n            ):\n                self.save(self.iteration)\n\n        if conv >= self.conv_threshold:",
     "                and (self.iteration + 1) % self.checkpoint_frequency == 0\n            ):\n                self.save(self.iteration)\n\n        if conv >= self.conv_threshold:", ["C12"]),
    ("m41", CK, "            max_to_keep=max_checkpoints,\n", "            max_to_keep=max_checkpoints + 1,\n", ["C12"]),
    ("m42", CK, "        self.checkpoint_manager = None\n\n        # Early return if checkpointing not requested\n        if self.checkpoint_frequency == 0:\n            logger.info(\"Checkpointing not enabled\")\n            return\n\n        # Setup checkpoint directory\n        if checkpoint_dir is None:",
     "        self.checkpoint_manager = None\n\n        if checkpoint_dir is not None:\n            Path(checkpoint_dir).absolute().mkdir(parents=True, exist_ok=True)\n        # Early return if checkpointing not requested\n        if self.checkpoint_frequency == 0:\n            logger.info(\"Checkpointing not enabled\")\n            return\n\n        # Setup checkpoint directory\n        if checkpoint_dir is None:", ["C12"]),
    ("m64", CK, "        step = step or manager.latest_step()\n        if step is None:\n            raise ValueError(f\"No checkpoints found in {checkpoint_dir}\")\n\n        # Restore state",
     "        step = step or min(manager.all_steps(), default=None)\n        if step is None:\n            raise ValueError(f\"No checkpoints found in {checkpoint_dir}\")\n\n        # Restore state", ["C10", "C11"]),
    ("m65", CK, "        if new_checkpoint_dir is not None:\n            new_checkpoint_dir = Path(new_checkpoint_dir).absolute()\n            config.checkpoint_dir = new_checkpoint_dir\n",
     "        if new_checkpoint_dir is not None:\n            new_checkpoint_dir = Path(new_checkpoint_dir).absolute()\n", ["C10"]),
    # ---------------- shipped problems
    ("m43", DM, "        holding = jnp.sum(stock_after_issue[0 : self.max_useful_life - 1])", "        holding = jnp.sum(stock_after_issue)", ["C15"]),
    ("m44", DM, "        if self.issue_policy == \"fifo\":\n            self._issue_stock = self._issue_fifo\n        else:\n            self._issue_stock = self._issue_lifo",
     "        if self.issue_policy == \"fifo\":\n            self._issue_stock = self._issue_lifo\n        else:\n            self._issue_stock = self._issue_fifo", ["C15"]),
    ("m45", MJ, "        return jnp.hstack([0, c_0 + (c_1 * action)])[::-1]", "        return jnp.hstack([0, c_0 + (c_1 * action)])", ["C16"]),
    ("m46", MJ, "        next_weekday = (state[self.state_component_lookup[\"weekday\"]] + 1) % 7", "        next_weekday = state[self.state_component_lookup[\"weekday\"]] + 1", ["C14", "C15"]),
    ("m47", HX, "                ).dot(scipy.stats.binom.pmf(u, x, self.substitution_probability))",
     "                ).dot(scipy.stats.binom.pmf(u, x, 1 - self.substitution_probability))", ["C16"]),
    ("m48", DM, "        beta = 1 / (mean * cov**2)", "        beta = mean * cov**2", ["C16"]),
    ("m49", FO, "self._probability_matrix = jnp.array([[1 - self.p, self.p], [1, 0]])", "self._probability_matrix = jnp.array([[1 - self.p, self.p], [1 - self.p, self.p]])", ["C16"]),
    ("m50", MJ, "            total_count=n, probs=(1 - p)\n", "            total_count=n, probs=p\n", ["C16"]),
    ("m51", DM, "        demand_probabilities = demand_probabilities.at[-1].add(", "        demand_probabilities = demand_probabilities.at[0].add(", ["C16"]),
    ("m52", DM, "        shortage = jnp.max(jnp.array([demand - jnp.sum(opening_stock), 0]))", "        shortage = jnp.max(jnp.array([demand - jnp.sum(opening_stock[:-1]), 0]))", ["C15"]),
    ("m66", HX, "        self.max_demand = self.max_useful_life * (\n            max(self.max_order_quantity_a, self.max_order_quantity_b) + 2\n        )",
     "        self.max_demand = self.max_useful_life * (\n            max(self.max_order_quantity_a, self.max_order_quantity_b) + 1\n        )", ["C13", "C16"]),
    ("m67", MJ, "        opening_stock_after_delivery = opening_stock_after_delivery.clip(\n            0, self.max_order_quantity\n        )\n", "", ["C14", "C15"]),
    # ---------------- matrices
    ("m53", PROB, "            ].add(\n                probs\n            )  # Probabilities for this action", "            ].set(\n                probs\n            )  # Probabilities for this action", ["C17"]),
    ("m54", PROB, "        if max_deviation > normalization_tolerance:\n", "        if max_deviation > normalization_tolerance * 5:\n", ["C17"]),
    ("m55", PROB, "            action, state = jnp.unravel_index(", "            state, action = jnp.unravel_index(", ["C17"]),
    # ---------------- spaces / config
    ("m58", SP, "tuple(vector - mins), dimensions, mode=\"clip\"", "tuple(vector), dimensions, mode=\"clip\"", ["C19"]),
    ("m59", SP, "tuple(vector - mins), dimensions, mode=\"clip\"", "tuple(vector - mins), dimensions, mode=\"wrap\"", ["C19"]),
    ("m60", SA, "        if not 0 <= self.gamma <= 1:\n            raise ValueError(\"gamma must be between 0 and 1\")", "        if not 0 <= self.gamma:\n            raise ValueError(\"gamma must be between 0 and 1\")", ["C20"]),
    ("m61", PER, "        if self.gamma == 1.0 and self.period < 2:\n            raise ValueError(\"Period must be at least 2 for undiscounted case\")\n", "", ["C20"]),
    ("m62", CORE, "        self.jax_double_precision = self.config.jax_double_precision\n        if self.jax_double_precision:\n            jax.config.update(\"jax_enable_x64\", True)\n",
     "        self.jax_double_precision = self.config.jax_double_precision\n", ["C20"]),
    ("m68", CORE, "        return initial_values.astype(jnp.result_type(float))\n", "        return initial_values\n", ["C06", "C09", "C20"]),
    ("m69", CORE, "        # Set up precision (before any array is created)\n        self.jax_double_precision = self.config.jax_double_precision\n        if self.jax_double_precision:\n            jax.config.update(\"jax_enable_x64\", True)\n\n        # Store core attributes\n        self.gamma = jnp.array(self.config.gamma)\n",
     "        self.gamma = jnp.array(self.config.gamma)\n        self.jax_double_precision = self.config.jax_double_precision\n        if self.jax_double_precision:\n            jax.config.update(\"jax_enable_x64\", True)\n", ["C03"]),
    ("m70", BP, "        max_batch_size = operator.index(max_batch_size)\n", "", ["C18"]),
    ("m63", LG, "    decimal_places = max(min(decimal_places, max_decimals), 0)", "    decimal_places = min(decimal_places, max_decimals)", ["C20"]),
    # ---------------- negative controls (property-preserving refactors)
    ("n01", RVI, "        self.gain = new_values[-1]\n", "        self.gain = new_values[0]\n", ["C04", "C08", "C03"]),
    ("n02", BP, "            self.n_batches = (\n                states_per_device + self.batch_size - 1\n            ) // self.batch_size",
     "            self.n_batches = (\n                states_per_device + self.batch_size\n            ) // self.batch_size", ["C18", "C03", "C02"]),
    ("n03", VI, "        best_action_idx = jnp.argmax(\n            jax.vmap(\n                self._calculate_updated_state_action_value,\n                in_axes=(None, 0, None, None, None),\n            )(state, actions, random_events, gamma, values)\n        )\n        return best_action_idx",
     "        q_values = jax.vmap(\n            self._calculate_updated_state_action_value,\n            in_axes=(None, 0, None, None, None),\n        )(state, actions, random_events, gamma, values).reshape(-1)\n        best_action_idx = q_values.shape[0] - 1 - jnp.argmax(q_values[::-1])\n        return best_action_idx", ["C01", "C02", "C05"]),
    ("n04", BP, "                max(64, states_per_device),  # ensure minimum batch size", "                max(32, states_per_device),  # ensure minimum batch size", ["C18", "C03"]),
    ("n05", SA, "            self.key, subkey = random.split(self.key)\n", "            subkey, self.key = random.split(self.key)\n", ["C06", "C01"]),
]
# n01 needs the matching start of the gain
EXTRA = {"n01": [(RVI, "        self.gain = float(self.values[-1])", "        self.gain = float(self.values[0])")]}


def apply(mid, srcdir):
    for (i, f, old, new, _) in M:
        if i == mid:
            p = Path(srcdir) / "mdpax" / f
            s = p.read_text()
            assert s.count(old) == 1, f"{mid}: pattern occurs {s.count(old)} times in {f}"
            p.write_text(s.replace(old, new))
            for (f2, o2, n2) in EXTRA.get(mid, []):
                p2 = Path(srcdir) / "mdpax" / f2
                s2 = p2.read_text()
                assert s2.count(o2) == 1, f"{mid}: extra pattern in {f2}"
                p2.write_text(s2.replace(o2, n2))
            return
    raise KeyError(mid)


def run(ids):
    out = ROOT / "tools" / "mutants_results.jsonl"
    for (mid, f, old, new, checks) in M:
        if ids and mid not in ids:
            continue
        scratch = Path(tempfile.mkdtemp(prefix=f"vf_mut_{mid}_"))
        try:
            shutil.copytree("/repo/src", scratch / "src")
            apply(mid, scratch / "src")
            for c in checks:
                env = dict(os.environ, MDPAX_SRC=str(scratch / "src"), VERIF_EVIDENCE_DIR=str(scratch / "ev"),
                           VERIF_REPLAY_DIR=str(scratch / "rp"))
                t0 = time.time()
                p = subprocess.run([str(ROOT / "check"), c, "--tier", os.environ.get("MUT_TIER", "quick")],
                                   env=env, capture_output=True, text=True)
                what = [l.strip() for l in p.stdout.splitlines() if l.strip().startswith("what:")][:1]
                summ = [l for l in p.stdout.splitlines() if l.startswith(f"[{c}]")][:1]
                inc = [l for l in p.stdout.splitlines() if l.startswith("INCONCLUSIVE")][:1]
                rec = dict(mutant=mid, file=f, check=c, rc=p.returncode, wall=round(time.time() - t0, 1),
                           what=(what or inc or [""])[0][:400], summary=(summ or [""])[0])
                expected = 0 if mid.startswith("n") else 1
                rec["as_expected"] = (p.returncode == expected)
                with open(out, "a") as fh:
                    fh.write(json.dumps(rec) + "\n")
                print(f"{mid} {c} rc={p.returncode} {'OK' if rec['as_expected'] else 'UNEXPECTED'} {rec['wall']}s {rec['what'][:160]}", flush=True)
        finally:
            shutil.rmtree(scratch, ignore_errors=True)


if __name__ == "__main__":
    cmd = sys.argv[1] if len(sys.argv) > 1 else "list"
    if cmd == "list":
        for (mid, f, old, new, checks) in M:
            print(mid, f, checks)
    elif cmd == "diff":
        scratch = Path(tempfile.mkdtemp(prefix="vf_mutdiff_"))
        shutil.copytree("/repo/src", scratch / "src")
        shutil.copytree("/repo/src", scratch / "orig")
        apply(sys.argv[2], scratch / "src")
        subprocess.run(["diff", "-ru", str(scratch / "orig"), str(scratch / "src")])
        shutil.rmtree(scratch)
    elif cmd == "check":
        for (mid, f, old, new, checks) in M:
            scratch = Path(tempfile.mkdtemp(prefix="vf_mutchk_"))
            shutil.copytree("/repo/src", scratch / "src")
            try:
                apply(mid, scratch / "src")
                subprocess.run([sys.executable, "-m", "py_compile", str(scratch / "src" / "mdpax" / f)], check=True)
            except Exception as e:
                print("BAD", mid, e)
            shutil.rmtree(scratch)
        print("patterns ok")
    else:
        run(set(sys.argv[2:]))
