#!/bin/sh
# usage: verify_seed.sh <agent> <tests...>   -> demo on both trees + relevant tests on patched tree
a=$1; shift
cd /tmp/wt/${a}_out
PYTHONPATH=/repo/src JAX_PLATFORMS=cpu timeout 1500 /venv/bin/python demo.py > /tmp/wt/${a}_out/v_demo_orig.log 2>&1; echo "$a demo orig rc=$?"
PYTHONPATH=/tmp/wt/$a/src JAX_PLATFORMS=cpu timeout 1500 /venv/bin/python demo.py > /tmp/wt/${a}_out/v_demo_mut.log 2>&1; echo "$a demo mutant rc=$?"
cd /tmp/wt/$a && PYTHONPATH=/tmp/wt/$a/src JAX_PLATFORMS=cpu timeout 3000 /venv/bin/python -m pytest -q -p no:cacheprovider --no-cov "$@" -k "not m3" > /tmp/wt/${a}_out/v_tests.log 2>&1; echo "$a tests rc=$? $(tail -1 /tmp/wt/${a}_out/v_tests.log)"
