#!/bin/sh
for a in "$@"; do
  cd /tmp/wt/$a && PYTHONPATH=/tmp/wt/$a/src JAX_PLATFORMS=cpu nice -n 5 /venv/bin/python -m pytest -q -p no:cacheprovider --no-cov --timeout=1800 tests > /tmp/wt/${a}_out/v_fullsuite.log 2>&1
  echo "$a full suite rc=$? $(tail -1 /tmp/wt/${a}_out/v_fullsuite.log)"
done
